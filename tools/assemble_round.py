#!/usr/bin/env python3
"""usage: assemble_round.py <round tag, e.g. r10>
For every /verif/seeded/<property>/<round>-m<k>/ (patch.diff, demo.diff, the sub-agent's notes.md, confirm.json written by
tools/confirm_mutant.sh, caught.json written by tools/catch_matrix.sh, optionally NOTE and RECHECK.json) writes meta.json
and appends / replaces that round's rows in /verif/seeded/RESULTS.md."""
import json, os, glob, re, sys

rnd = sys.argv[1]
DST = '/verif/seeded'
FLAKY = ('retrier::tests::test_manage_retry_while_idle', 'retrier::tests::test_manage_retry_unreachable', 'carrier::tests::test_in_mempool_connection_error')


def only_flaky(names):
    names = [n for n in names.split() if n]
    return all(n in FLAKY for n in names)


rows = []
for d in sorted(glob.glob(f'{DST}/C*/{rnd}-m*')):
    if not os.path.isfile(f'{d}/patch.diff'):
        continue
    if not d.endswith('p') and os.path.isfile(f'{d}p/patch.diff'):
        continue  # superseded by the variant ported onto the repaired tree
    prop = d.split('/')[-2]
    tag = d.split('/')[-1]
    notes_md = open(f'{d}/notes.md').read() if os.path.isfile(f'{d}/notes.md') else ''
    confirm = json.load(open(f'{d}/confirm.json')) if os.path.isfile(f'{d}/confirm.json') else {}
    caught = json.load(open(f'{d}/caught.json')) if os.path.isfile(f'{d}/caught.json') else {}
    # checks strengthened after the first matrix run: their re-run replaces the first verdict (kept under first_run)
    first = {}
    if os.path.isfile(f'{d}/RECHECK.json'):
        re_ = json.load(open(f'{d}/RECHECK.json'))
        for c, v in re_.items():
            if c in caught:
                first[c] = caught[c]
            caught[c] = v
    note = open(f'{d}/NOTE').read().strip() if os.path.isfile(f'{d}/NOTE') else ''
    pf = confirm.get('with_patch_pass_fail', '')
    suite_ok = pf.startswith('275 0') or (pf.startswith('274 1') and only_flaky(confirm.get('with_patch_failed', '')))
    pdf = confirm.get('with_patch_and_demo_pass_fail', '')
    demo_fails = pdf.strip() != '' and pdf.split()[-1] != '0'
    demo_alone_ok = confirm.get('demo_only_pass_fail', '').endswith(' 0') or only_flaky(confirm.get('demo_only_failed', ' x'))
    ok = suite_ok and demo_fails and demo_alone_ok
    text = re.sub(r'\s+', ' ', re.sub(r'[#*`]', '', notes_md)).strip()
    meta = {
        'property': prop,
        'summary': text[:1500],
        'needs_to_manifest': 'see notes.md (the sub-agent\'s own description: what was changed, why it breaks the property, what it needs in order to manifest, the demonstration and the commands run)',
        'origin': 'independent sub-agent given only the property text and a scratch worktree',
        'confirmed_in_scratch_worktree': confirm,
        'confirmed': bool(ok),
        'checks_run': caught,
        'checks_first_run_before_strengthening': first,
        'notes': note,
    }
    json.dump(meta, open(f'{d}/meta.json', 'w'), indent=1)
    catchers = [f"{c} ({v['signatures'][0]})" if v.get('signatures') else c for c, v in caught.items() if isinstance(v, dict) and v.get('exit') == 1]
    missed = [c for c, v in caught.items() if isinstance(v, dict) and v.get('exit') == 0]
    if first:
        note = (note + ' ' if note else '') + 'First missed by ' + ', '.join(c for c, v in first.items() if v.get('exit') == 0) + '; caught after the check was strengthened.'
    rows.append((prop, tag, 'yes' if ok else 'see meta', '; '.join(catchers) or '-', ', '.join(missed) or '-', text[:110].replace('|', '/'), note.replace('|', '/').replace('\n', ' ')))

path = f'{DST}/RESULTS.md'
lines = open(path).read().rstrip('\n').split('\n')
lines = [l for l in lines if not re.match(rf'^\| C\d\d \| {rnd}-m', l)]
for r in rows:
    lines.append('| ' + ' | '.join(r) + ' |')
open(path, 'w').write('\n'.join(lines) + '\n')
print(len(rows), 'changes of round', rnd, 'assembled')
