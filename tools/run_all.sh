#!/bin/bash
# usage: run_all.sh <tier> [ids...]   runs ./check (which rebuilds from /repo's working tree) for each id, prints verdict lines
tier=${1:-quick}; shift
ids=${@:-C01 C02 C03 C04 C06 C07 C08 C09 C10 C11 C12 C15 C16 C17 C18 C19 C20 C05 C13 C14}
for c in $ids; do
  s=$(date +%s)
  out=$(/verif/check $c --tier $tier 2>&1)
  code=$?
  echo "== $c tier=$tier exit=$code wall=$(( $(date +%s) - s ))s"
  echo "$out" | grep -E "VIOLATION|signature|KNOWN|MACHINERY|OK property" | cut -c1-260
done
