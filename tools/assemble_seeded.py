#!/usr/bin/env python3
"""Assembles /verif/seeded/<property>/<m>/ from the sub-agents' deliveries under /var/tmp/mut_out,
the confirmation runs (confirm.json, written by tools/confirm_mutant.sh in a scratch worktree) and
the catch runs (caught.json, written by tools/catch_matrix.sh). Writes /verif/seeded/RESULTS.md."""
import json, os, shutil, glob, re

SRC = '/var/tmp/mut_out'
DST = '/verif/seeded'
rows = []
for d in sorted(glob.glob(f'{SRC}/*/m*')):
    if not os.path.isfile(f'{d}/patch.diff') or os.path.isfile(f'{d}/SKIP'):
        continue
    if not d.endswith('p') and os.path.isfile(f'{d}p/patch.diff'):
        continue  # superseded by the variant ported onto the repaired tree
    name = d.split('/')[-2]
    m = d.split('/')[-1]
    prop = re.sub(r'^R\d', '', name)
    tag = m if name == prop else f'{name.lower()[:2]}-{m}'
    meta = {}
    try:
        meta = json.load(open(f'{d}/meta.json'))
    except Exception:
        pass
    confirm = {}
    if os.path.isfile(f'{d}/confirm.json'):
        try:
            confirm = json.load(open(f'{d}/confirm.json'))
        except Exception:
            confirm = {'raw': open(f'{d}/confirm.json').read()}
    caught = {}
    if os.path.isfile(f'{d}/caught.json'):
        caught = json.load(open(f'{d}/caught.json'))
    notes = ''
    if os.path.isfile(f'{d}/NOTE'):
        notes = open(f'{d}/NOTE').read().strip()
    if m.endswith('p') and not meta and os.path.isfile(f'{d[:-1]}/meta.json'):
        meta = json.load(open(f'{d[:-1]}/meta.json'))
    # retrier::tests::test_manage_retry_while_idle (watchtower-plugin) is timing-sensitive and fails now and then on
    # a loaded machine, with or without any change: it is not counted against a change
    FLAKY = 'retrier::tests::test_manage_retry_while_idle'
    def only_flaky(names):
        names = [n for n in names.split() if n]
        return all(n == FLAKY for n in names)
    suite_ok = confirm.get('with_patch_pass_fail', '').startswith('275 0') or (confirm.get('with_patch_pass_fail', '').startswith('274 1') and only_flaky(confirm.get('with_patch_failed', '')))
    both = [n for n in confirm.get('with_patch_and_demo_failed', '').split() if n and n != FLAKY]
    pf = confirm.get('with_patch_and_demo_pass_fail', '')
    demo_fails = len(both) >= 1 or (not confirm.get('with_patch_and_demo_failed', '').strip() and (pf.strip() == '' or pf.split()[-1] != '0'))  # an empty count: the run with the demonstration hung until the 420 s time-out
    demo_alone_ok = confirm.get('demo_only_pass_fail', '').endswith(' 0') or only_flaky(confirm.get('demo_only_failed', ' x'))
    ok = suite_ok and demo_fails and demo_alone_ok
    out = f'{DST}/{prop}/{tag}'
    os.makedirs(out, exist_ok=True)
    shutil.copy(f'{d}/patch.diff', out)
    if os.path.isfile(f'{d}/demo.diff'):
        shutil.copy(f'{d}/demo.diff', out)
    full = {
        'property': prop,
        'summary': meta.get('summary', ''),
        'needs_to_manifest': meta.get('needs_to_manifest', ''),
        'demo_test': meta.get('demo_test', ''),
        'origin': 'independent sub-agent given only the property text and a scratch worktree' + (' (ported by hand onto the repaired tree: the original touched lines changed by a fix: commit)' if m.endswith('p') else ''),
        'confirmed_in_scratch_worktree': confirm,
        'confirmed': bool(ok),
        'checks_run': caught,
        'notes': notes,
    }
    json.dump(full, open(f'{out}/meta.json', 'w'), indent=1)
    catchers = [f"{c} ({v['signatures'][0]})" if v.get('signatures') else c for c, v in caught.items() if isinstance(v, dict) and v.get('exit') == 1]
    missed = [c for c, v in caught.items() if isinstance(v, dict) and v.get('exit') == 0]
    rows.append((prop, tag, 'yes' if ok else 'see meta', '; '.join(catchers) or '-', ', '.join(missed) or '-', (meta.get('summary', '') or '')[:110].replace('|', '/'), notes.replace('|', '/').replace('\n', ' ')))

with open(f'{DST}/RESULTS.md', 'w') as f:
    f.write('# Seeded changes: which check catches which\n\n')
    f.write('Each change compiles, passes the 275 existing tests and comes with a demonstration test that fails with it and passes without it (column "confirmed": re-run by tools/confirm_mutant.sh in a scratch worktree at the /repo HEAD of that time; details in each meta.json). "caught by" = quick-tier checks that exit 1 with the change applied to /repo (tools/try_mutant.sh), with the first signature reported.\n\n')
    f.write('| property | change | confirmed | caught by (quick tier) | checks run that stayed silent | what it is | note |\n|---|---|---|---|---|---|---|\n')
    for r in rows:
        f.write('| ' + ' | '.join(r) + ' |\n')
print(len(rows), 'changes assembled')
