#!/bin/bash
# usage: catch_matrix.sh <mutant dirs...>
# For each seeded change: apply it to a scratch worktree of /repo (CM_REPO, default /var/tmp/cm/repo) that a scratch
# copy of the harness (CM_VERIF, default /var/tmp/cm/verif) is built against, run the quick tier of its own property's
# check (plus the related ones listed below), record exit codes and signatures in <dir>/caught.json, revert.
# Neither /repo nor /verif is touched, so this can run next to other work. Remove /var/tmp/cm when done
# (git -C /repo worktree remove --force /var/tmp/cm/repo; rm -rf /var/tmp/cm).
R=${CM_REPO:-/var/tmp/cm/repo}; V=${CM_VERIF:-/var/tmp/cm/verif}
if [ ! -d $R ]; then mkdir -p $(dirname $R); git -C /repo worktree add --detach $R HEAD >/dev/null || exit 2; fi
git -C $R checkout -q --detach $(git -C /repo rev-parse HEAD) || exit 2
mkdir -p $V
rsync -a --delete --exclude target /verif/harness/ $V/harness/
[ -d $V/harness/target ] || cp -a /verif/harness/target $V/harness/target
sed -i "s#\"/repo/#\"$R/#" $V/harness/Cargo.toml
related() {
  case "$1" in
    C01) echo "C01 C02 C10";;
    C02) echo "C02 C01 C10";;
    C03) echo "C03 C07";;
    C04) echo "C04 C11";;
    C05) echo "C05";;
    C06) echo "C06 C08";;
    C07) echo "C07";;
    C08) echo "C08 C10";;
    C09) echo "C09";;
    C10) echo "C10 C11";;
    C11) echo "C11 C10";;
    C12) echo "C12";;
    C13) echo "C13";;
    C14) echo "C14";;
    C15) echo "C15";;
    C16) echo "C16";;
    C17) echo "C17";;
    C18) echo "C18";;
    C19) echo "C19 C01";;
    C20) echo "C20";;
  esac
}
for d in "$@"; do
  name=$(basename $(dirname $d)); prop=$(echo $name | sed -E 's/^R[0-9]//')
  [ -f $d/patch.diff ] || continue
  cd $R
  if ! git diff --quiet; then echo "repo dirty"; exit 2; fi
  if ! git apply --check $d/patch.diff 2>/dev/null; then echo "{\"applies\": false}" > $d/caught.json; echo "$d: does not apply"; continue; fi
  git apply $d/patch.diff
  mkdir -p /var/tmp/cm/out; cp /verif/known_findings.json /verif/properties.jsonl /var/tmp/cm/out/
  (cd $V/harness && cargo build 2>&1 | grep -E "^error" -A 8)
  json="{"
  first=1
  # a file EXTRA_CHECKS in the directory names further checks to run for this change (one that breaks its property through
  # another property's territory)
  for c in $(related $prop) $(cat $d/EXTRA_CHECKS 2>/dev/null); do
    case "$c" in C05|C13|C14) (cd $V/harness && cargo build --offline --manifest-path $R/watchtower-plugin/Cargo.toml --features verif --bin watchtower-client --target-dir $V/harness/target/repo-bins 2>&1 | grep -E "^error" -A 8);; esac
    if [ "$c" = "C01" ] || [ "$c" = "C03" ] || [ "$c" = "C12" ]; then (cd $V/harness && cargo build --offline --manifest-path $R/teos/Cargo.toml --features verif --bin teosd --target-dir $V/harness/target/repo-bins 2>&1 | grep -E "^error" -A 8); fi
    out=$(cd $V/harness && VERIF_CLIENT_BIN=$V/harness/target/repo-bins/debug/watchtower-client VERIF_TEOSD_BIN=$V/harness/target/repo-bins/debug/teosd VERIF_DIR=/var/tmp/cm/out timeout 1500 ./target/debug/verif $c --tier quick 2>&1)
    code=$?
    sigs=$(echo "$out" | grep "signature:" | sed 's/.*signature: //' | head -4 | python3 -c "import sys,json; print(json.dumps([l.strip() for l in sys.stdin]))")
    [ $first = 1 ] || json="$json,"
    first=0
    json="$json \"$c\": {\"exit\": $code, \"signatures\": $sigs}"
  done
  json="$json }"
  echo "$json" > $d/caught.json
  echo "$d: $json" | cut -c1-300
  git -C $R checkout -- .
done
