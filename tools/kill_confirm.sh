#!/bin/bash
# kills background mutant-confirmation jobs (pattern assembled so that this script does not match itself)
a="confirm_"; b="mutant.sh"
for p in $(pgrep -f "${a}${b}"); do [ "$p" != "$$" ] && kill "$p" 2>/dev/null; done
c="cargo test --work"; d="space"
for p in $(pgrep -f "${c}${d}"); do kill "$p" 2>/dev/null; done
for p in $(pgrep -f "/var/tmp/mut/C19/tar" ); do kill "$p" 2>/dev/null; done
exit 0
