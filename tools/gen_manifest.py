#!/usr/bin/env python3
"""Generates /verif/MANIFEST.json from the table below (kept in one place so it stays valid)."""
import json, subprocess
props=[json.loads(l) for l in open('/verif/properties.jsonl')]
ids=[p['id'] for p in props]
T_NOTE="Trusted: the simulated bitcoind/chain (SimNode/SimChain, verdicts are a function of chain+mempool state), sqlite atomicity, the harness mirror of main.rs's bootstrap, the reference oracle in harness/src/spec.rs. Bounds (depth, deviations, alphabets, seeds) are written to the evidence file by each run."
CHECKS={
 "C01":("model_checking","T","explicit-state BFS by re-execution of the real tower (histories over register/add/mine/poll/reorg/restart/external broadcast, two users, shared locators, garbled/refused/2-slot blobs, dispute+penalty in one block, 6-block window family); per-block monitor: every breach of a held appointment must have its penalty submitted (or provably known to the node) while that block is handled, and the outcome must match the node's verdict","4.2, 5/C01"),
 "C02":("model_checking","T","same exploration as C01 plus short-subscription configuration; every sendrawtransaction of every step must be justified by a tracked/triggered appointment (disputes only right after a disconnect), no tracker row without node evidence","5/C02"),
 "C04":("model_checking","T","exhaustive parameter grid (confirmation delay x reorg depth x replacement kind x single/multi-block poll, then the road past 100 confirmations observed block by block) plus BFS from tracker seeds; oracle: re-submission after disconnect, periodic rebroadcast (any 7 heights), confirmed rows equal active-chain truth, completion+refund exactly at confirmation+100, drop without refund only on node rejection while unconfirmed","5/C04"),
 "C06":("model_checking","T","BFS over two users sharing locators, short subscriptions (expired users), an unregistered key; at every distinct state the forgery matrix is applied: signatures of the right key over every other request's message (other request kind, other locator, other to_self_delay, other appointment, empty), requests by unregistered/expired keys, every truncation and spread single-character substitutions of valid signatures, non-zbase32 text; each must answer Unauthenticated (with the expiry for expired users) and leave tables and memory untouched; isolation is the reference-model comparison keyed by (user, locator) after every step","5/C06"),
 "C07":("model_checking","T","exhaustive sweep of the slot formula for every blob length 0..4 MiB plus BFS over registrations/renewals/submissions/replacements with blob sizes on both sides of slot boundaries, triggers (accepted/invalid/refused), completions, restarts; invariant granted = available + held + forfeited after every step, memory = disk = wire","5/C07"),
 "C08":("model_checking","T","BFS over submissions/replacements (3 to_self_delay values, 5 blob kinds), renewals, requests between block and poll, reorgs; every receipt is verified with the client's own verifier, start_block = tower height, read-back is byte-for-byte the last accepted version","5/C08"),
 "C09":("model_checking","T","BFS over every (slots,duration,grace) configuration of a small grid including 0 and 1, registrations/renewals of two users, single and multi-block polls, reorgs across expiry and purge heights; oracle: usability exactly below expiry, purge exactly at expiry+grace, renewals add one duration","5/C09"),
 "C03":("fault_enumeration","T+crash","for every history of a BFS over the tower alphabet (register, add plain/2-slot/replace/triggered, blocks, split polls, 1-block reorgs; seeds S0,S1,S4; plus a 100-confirmation completion history) and every step of it: the tower is killed right before each durable effect (every sqlite write/commit and every node RPC are crash points) and while idle, chain events that follow happen while it is down, it is restarted on the same file, the client gives up or re-sends, the rest is applied; differential oracle against the uninterrupted runs (took / lost / re-sent), ground truth for confirmed trackers, what the restarted tower tells (memory) included; polls are also combined with a failed block download","5/C03"),
 "C19":("model_checking","X","BFS over connect/disconnect sequences on the real TxIndex (both key types) for N in {1,2,3} with a 3-transaction universe (same key re-appearing in replacement blocks), every key/block ever seen looked up after every operation against a VecDeque reference; deterministic reorg families at the production sizes N=6 and N=100","5/C19"),
 "C10":("model_checking","S","stateless model checking of the real tower under a controlled scheduler: for each of 16 two-operation scenarios (thorough: plus three-operation ones) from prepared states, every schedule with at most 3 (quick) / 4 (thorough) pre-emptions at lock/condvar/atomic granularity is executed; oracle: the observable outcome (replies, balances, held appointments and versions, trackers, submissions to the node, memory = tables, receipt start block = stored) equals that of some sequential order of the same operations","5/C10"),
 "C11":("model_checking","S+T","the C10 schedules with deadlock detection (no enabled thread while one is unfinished, reported with held/wanted locks), per-thread panic capture and a liveness probe after every execution (one more request and one more block must be served; poisoned mutexes fail it); plus BFS over tower histories (C01 alphabets, resubmission of an appointment in every lifecycle state, multi-block catch-up) with panic and restart-failure detectors","5/C11"),
 "C17":("exploration","H","finite grid fully enumerated: transaction shapes x ids (incl. ids sharing 31 bytes), round trip, every other id, every single-bit flip, truncations/extensions; signatures: recovery, cross-key, every 1-byte message change, every single-character substitution and truncation","6/C17"),
 "C20":("exploration","H","finite grid fully enumerated through the real from_file/StructOpt/patch_with_options/verify: the interacting group (network x port x user x password x cookie in {absent,file,cli,both} x 7 network-name pairs) exhaustively, every other option with up to 2 (quick) / 3 (thorough) deviations from four uniform backgrounds; full Config equality oracle","6/C20"),
}
ENGINE_NOTE={"S":"Trusted: the scheduler (self-checked: the same choice list replayed twice must give identical schedules and outcomes, otherwise exit 2); sequential consistency for the two atomic heights; no unsynchronised shared state in the tower crates (no unsafe, no statics); schedules inside tokio/tonic are not covered (handlers are driven directly).","S+T":"As C10 for the schedule half; as C01 for the history half.","T+crash":"Trusted: a kill between two durable effects equals a kill right before the later one; sqlite statement/transaction atomicity (no torn pages); the simulated bitcoind; the harness mirror of main.rs's bootstrap. Known findings (recorded, not repaired) are listed in known_findings.json and print KNOWN-FINDING lines.","X":"Trusted: the VecDeque reference model; assumption that a txid never occurs in two live blocks.","H":"Trusted: the oracle written from the statement; the grid is finite and listed in the evidence (rule)."}
checks=[]
for pid,(level,engine,text,ref) in CHECKS.items():
    checks.append({
      "property_id":pid,
      "quick_cmd":f"./check {pid} --tier quick",
      "thorough_cmd":f"./check {pid} --tier thorough",
      "evidence_file":f"/verif/evidence/{pid}.json",
      "replay_cmd_template":f"./check {pid} --replay {{path}}",
      "engine":engine,
      "level_claimed":{"category":level,"text":text,"design_ref":"DESIGN.md section "+ref},
      "level_note":ENGINE_NOTE.get(engine,T_NOTE),
      "technique":"stateless model checking under a controlled scheduler (exhaustive schedules up to a pre-emption bound, re-execution of the real code)" if engine.startswith("S") else "exhaustive crash-point enumeration over BFS-generated histories of the real tower (every durable write and node RPC, before/idle), restart + differential oracle" if engine=="T+crash" else "explicit-state model checking of the implementation (BFS by re-execution over a bounded event alphabet, canonical-state deduplication, reference-model oracle)" if level=="model_checking" else "exhaustive enumeration of a finite input grid against the real code (bounded exhaustive exploration, no sampling)",
    })
claimed=set(CHECKS)
commits=subprocess.run("git -C /repo log --format=%h --grep='^verif hooks'",shell=True,capture_output=True,text=True).stdout.split()
m={"version":1,
 "setup_cmd":"cd /verif/harness && CARGO_NET_OFFLINE=true cargo build --offline 2>&1 | tail -3",
 "hooks":{"guard":"cargo feature `verif` in teos-common, teos and watchtower-plugin (default off)",
          "enable":"/verif/harness depends on the three repo crates by path with features=[\"verif\"]; every ./check rebuilds them from /repo's working tree",
          "baseline_off_cmd":"cd /repo && cargo test --workspace --no-fail-fast --offline",
          "source_commits":commits,"add_only":True},
 "engines":[{"name":"T","path":"/verif/harness/src/{world,spec,tmodel,checks_t}.rs","serves_properties":sorted(p for p in claimed if CHECKS[p][1]=="T"),"kind_free_text":"explicit-state BFS by re-execution of the real tower over a simulated bitcoind"},
  {"name":"S","path":"/verif/harness/src/{sched,checks_s}.rs","serves_properties":["C10","C11"],"kind_free_text":"controlled scheduler over hook H2 (instrumented Mutex/Condvar/AtomicU32), pre-emption bounded DFS by re-execution"},
  {"name":"T+crash","path":"/verif/harness/src/checks_crash.rs","serves_properties":["C03"],"kind_free_text":"crash-point enumeration (hook H1) over engine T histories"},
  {"name":"X","path":"/verif/harness/src/checks_pure.rs","serves_properties":["C19"],"kind_free_text":"explicit-state BFS over the real TxIndex against a reference queue"},
  {"name":"H","path":"/verif/harness/src/checks_pure.rs","serves_properties":sorted(p for p in claimed if CHECKS[p][1]=="H"),"kind_free_text":"exhaustive finite input grids over real code"}],
 "checks":checks,
 "notes":"Genuine defects found and repaired are listed in known_findings.json (fixed: entries); see DESIGN.md.",
 "not_applicable":[{"property_id":p,"reason":"check under construction (see DESIGN.md section 11); not claimed yet"} for p in ids if p not in claimed]}
json.dump(m,open('/verif/MANIFEST.json','w'),indent=1)
print("claimed",sorted(claimed))
