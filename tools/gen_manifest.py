#!/usr/bin/env python3
"""Generates /verif/MANIFEST.json from the table below (kept in one place so it stays valid)."""
import json, subprocess
props=[json.loads(l) for l in open('/verif/properties.jsonl')]
ids=[p['id'] for p in props]
T_NOTE="Trusted: the simulated bitcoind/chain (SimNode/SimChain, verdicts are a function of chain+mempool state), sqlite atomicity, the harness mirror of main.rs's bootstrap, the reference oracle in harness/src/spec.rs. Bounds (depth, deviations, alphabets, seeds) are written to the evidence file by each run."
CHECKS={
 "C01":("model_checking","T","explicit-state BFS by re-execution of the real tower (histories over register/add/mine/poll/reorg/restart/external broadcast, two users, shared locators, garbled/refused/2-slot blobs, dispute+penalty in one block, 6-block window family); per-block monitor: every breach of a held appointment must have its penalty submitted (or provably known to the node) while that block is handled, and the outcome must match the node's verdict","4.2, 5/C01"),
 "C02":("model_checking","T","same exploration as C01 plus short-subscription configuration; every sendrawtransaction of every step must be justified by a tracked/triggered appointment (disputes only right after a disconnect), no tracker row without node evidence","5/C02"),
 "C04":("model_checking","T","exhaustive parameter grid (confirmation delay x reorg depth x replacement kind x single/multi-block poll, then the road past 100 confirmations observed block by block) plus BFS from tracker seeds; oracle: re-submission after disconnect, periodic rebroadcast (any 7 heights), confirmed rows equal active-chain truth, completion+refund exactly at confirmation+100, drop without refund only on node rejection while unconfirmed","5/C04"),
 "C07":("model_checking","T","exhaustive sweep of the slot formula for every blob length 0..4 MiB plus BFS over registrations/renewals/submissions/replacements with blob sizes on both sides of slot boundaries, triggers (accepted/invalid/refused), completions, restarts; invariant granted = available + held + forfeited after every step, memory = disk = wire","5/C07"),
 "C08":("model_checking","T","BFS over submissions/replacements (3 to_self_delay values, 5 blob kinds), renewals, requests between block and poll, reorgs; every receipt is verified with the client's own verifier, start_block = tower height, read-back is byte-for-byte the last accepted version","5/C08"),
 "C09":("model_checking","T","BFS over every (slots,duration,grace) configuration of a small grid including 0 and 1, registrations/renewals of two users, single and multi-block polls, reorgs across expiry and purge heights; oracle: usability exactly below expiry, purge exactly at expiry+grace, renewals add one duration","5/C09"),
}
checks=[]
for pid,(level,engine,text,ref) in CHECKS.items():
    checks.append({
      "property_id":pid,
      "quick_cmd":f"./check {pid} --tier quick",
      "thorough_cmd":f"./check {pid} --tier thorough",
      "evidence_file":f"/verif/evidence/{pid}.json",
      "replay_cmd_template":f"./check {pid} --replay {{path}}",
      "engine":engine,
      "level_claimed":{"category":level,"text":text,"design_ref":"DESIGN.md section "+ref},
      "level_note":T_NOTE,
      "technique":"explicit-state model checking of the implementation (BFS by re-execution over a bounded event alphabet, canonical-state deduplication, reference-model oracle)" if level=="model_checking" else "exhaustive enumeration",
    })
claimed=set(CHECKS)
commits=subprocess.run("git -C /repo log --format=%h --grep='^verif hooks'",shell=True,capture_output=True,text=True).stdout.split()
m={"version":1,
 "setup_cmd":"cd /verif/harness && CARGO_NET_OFFLINE=true cargo build --offline 2>&1 | tail -3",
 "hooks":{"guard":"cargo feature `verif` in teos-common, teos and watchtower-plugin (default off)",
          "enable":"/verif/harness depends on the three repo crates by path with features=[\"verif\"]; every ./check rebuilds them from /repo's working tree",
          "baseline_off_cmd":"cd /repo && cargo test --workspace --no-fail-fast --offline",
          "source_commits":commits,"add_only":True},
 "engines":[{"name":"T","path":"/verif/harness/src/{world,spec,tmodel,checks_t}.rs","serves_properties":sorted(claimed),"kind_free_text":"explicit-state BFS by re-execution of the real tower over a simulated bitcoind"}],
 "checks":checks,
 "notes":"Genuine defects found and repaired are listed in known_findings.json (fixed: entries); see DESIGN.md.",
 "not_applicable":[{"property_id":p,"reason":"check under construction (see DESIGN.md section 11); not claimed yet"} for p in ids if p not in claimed]}
json.dump(m,open('/verif/MANIFEST.json','w'),indent=1)
print("claimed",sorted(claimed))
