#!/bin/bash
# usage: confirm_mutant.sh <mutant dir containing patch.diff demo.diff> <scratch worktree>
# Confirms in a scratch worktree (synced to /repo HEAD): (1) suite passes with patch, (2) with patch+demo
# only the demo fails, (3) with demo alone everything passes. Writes <dir>/confirm.json
d=$1; wt=$2
cd $wt || exit 2
git checkout -q --detach $(git -C /repo rev-parse HEAD) 2>/dev/null; git checkout -q -- . ; git clean -qfd -e target
run() { timeout 420 cargo test --workspace --no-fail-fast --offline 2>&1 | tee /tmp/confirm.$$.log | grep -E "^test result" | awk '{p+=$4; f+=$6} END {print p" "f}'; }
failed() { grep -E "^test .* FAILED$|^    [a-z_:]+$" /tmp/confirm.$$.log | grep -v "^test " | sort -u | tr '\n' ' '; }
git apply $d/patch.diff || { echo '{"applies": false}' > $d/confirm.json; exit 1; }
r1=$(run); f1=$(failed)
git apply $d/demo.diff || { echo '{"applies": true, "demo_applies": false}' > $d/confirm.json; git checkout -q -- .; git clean -qfd -e target; exit 1; }
r2=$(run); f2=$(failed)
git apply -R $d/patch.diff
r3=$(run); f3=$(failed)
git checkout -q -- .; git clean -qfd -e target
echo "{\"repo_head\": \"$(git -C /repo rev-parse --short HEAD)\", \"with_patch_pass_fail\": \"$r1\", \"with_patch_failed\": \"$f1\", \"with_patch_and_demo_pass_fail\": \"$r2\", \"with_patch_and_demo_failed\": \"$f2\", \"demo_only_pass_fail\": \"$r3\", \"demo_only_failed\": \"$f3\"}" > $d/confirm.json
cat $d/confirm.json
rm -f /tmp/confirm.$$.log
