#!/bin/bash
# usage: try_mutant.sh <patch.diff> <tier> <check ids...>
# Applies a seeded change to /repo, runs the given checks, always reverts.
patch=$1; tier=$2; shift 2
cd /repo || exit 2
if ! git diff --quiet; then echo "repo dirty"; exit 2; fi
git apply "$patch" || { echo "patch does not apply"; exit 2; }
# (on exit the harness is rebuilt from the clean tree: the binary must never outlive the change it was built with)
trap 'git -C /repo checkout -- . ; git -C /repo clean -qfd -- teos/src watchtower-plugin/src teos-common/src; (cd /verif/harness && cargo build >/dev/null 2>&1; cargo build --offline --manifest-path /repo/teos/Cargo.toml --features verif --bin teosd --target-dir /verif/harness/target/repo-bins >/dev/null 2>&1; cargo build --offline --manifest-path /repo/watchtower-plugin/Cargo.toml --features verif --bin watchtower-client --target-dir /verif/harness/target/repo-bins >/dev/null 2>&1)' EXIT
mkdir -p /var/tmp/mutrun; cp /verif/known_findings.json /verif/properties.jsonl /var/tmp/mutrun/
cd /verif/harness && cargo build 2>&1 | grep -E "^error" -A 8
for c in "$@"; do
  case "$c" in C05|C13|C14) cargo build --offline --manifest-path /repo/watchtower-plugin/Cargo.toml --features verif --bin watchtower-client --target-dir /verif/harness/target/repo-bins 2>&1 | grep -E "^error" -A 8;; esac
  if [ "$c" = "C01" ] || [ "$c" = "C03" ] || [ "$c" = "C12" ]; then cargo build --offline --manifest-path /repo/teos/Cargo.toml --features verif --bin teosd --target-dir /verif/harness/target/repo-bins 2>&1 | grep -E "^error" -A 8; fi
  out=$(VERIF_TEOSD_BIN=/verif/harness/target/repo-bins/debug/teosd VERIF_CLIENT_BIN=/verif/harness/target/repo-bins/debug/watchtower-client VERIF_DIR=/var/tmp/mutrun timeout 1200 ./target/debug/verif $c --tier $tier 2>&1)
  code=$?
  echo "== $c exit=$code"
  echo "$out" | grep -E "VIOLATION|signature|OK property|MACHINERY" | cut -c1-220 | head -8
done
