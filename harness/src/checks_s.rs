//! C10 / C11 over engine S: all schedules (bounded pre-emptions) of two or three real tower
//! operations from prepared states; linearizability oracle, deadlock / panic / poison detection.

use std::collections::BTreeSet;
use std::panic::{catch_unwind, AssertUnwindSafe};
use std::sync::{Arc, Mutex as StdMutex};
use std::time::{Duration, Instant};

use serde_json::json;

use crate::report::{Run, Tier};
use crate::sched::{run_threads, setup_hooks, Sched};
use crate::sim::{tx_label, Replacement, TxName};
use crate::tower::{user_keys, Api, Monitor, TowerCfg};
use crate::world::{Blob, Ev, MineSel, World};

#[derive(Clone, Debug, PartialEq, Eq, serde::Serialize, serde::Deserialize)]
pub enum SOp {
    Register(u8),
    Add { user: u8, disp: u8, blob: Blob },
    Get { user: u8, disp: u8 },
    Info(u8),
    Poll,
}

#[derive(Clone, Debug, serde::Serialize, serde::Deserialize)]
pub struct Scenario {
    pub name: String,
    pub cfg: TowerCfg,
    /// applied one after another before the concurrent part
    pub seed: Vec<Ev>,
    pub ops: Vec<SOp>,
}

#[derive(Clone, Debug, PartialEq, Eq, PartialOrd, Ord)]
pub struct Outcome {
    pub results: Vec<String>,
    pub db: String,
    pub memory: String,
    pub rpcs: Vec<String>,
}

pub struct Exec {
    pub outcome: Option<Outcome>,
    pub deadlock: Option<String>,
    pub panics: Vec<(usize, String)>,
    pub probe_failure: Option<String>,
    pub diverged: Option<String>,
    pub points: Vec<crate::sched::PointRec>,
    pub lock_order: Vec<(String, String)>,
    pub unjustified_sends: Vec<String>,
    /// receipts whose start block is not a height the tower was at while the request was served
    pub receipt_notes: Vec<String>,
}

fn run_op(op: &SOp, api: &Api, monitor: &Arc<StdMutex<Option<Monitor>>>, log: &Arc<StdMutex<crate::world::EventLog>>) -> String {
    match op {
        SOp::Register(u) => match api.register(&user_keys(*u)) {
            Ok(r) => format!("ok:{}:{}:{}", r.available_slots, r.subscription_start, r.subscription_expiry),
            Err(e) => format!("err:{:?}", e.code),
        },
        SOp::Add { user, disp, blob } => {
            let (a, sig) = World::make_appointment(&user_keys(*user), *disp, *blob, 42);
            // chain events the listeners had completely handled when the request came in / had been handed when it was answered
            let done_before = log.lock().unwrap().done;
            let r = api.add_appointment(&a, sig);
            let handed_after = log.lock().unwrap().events.len();
            match r {
                Ok(r) => format!("ok:slots={}:expiry={}:start={}:win={},{}", r.available_slots, r.subscription_expiry, r.start_block, done_before, handed_after),
                Err(e) => format!("err:{:?}", e.code),
            }
        }
        SOp::Get { user, disp } => {
            let loc = teos_common::appointment::Locator::new(crate::sim::txid_of(TxName::D(*disp)));
            match api.get_appointment(&loc, user_keys(*user).sign(format!("get appointment {}", hex::encode(loc.to_vec())).as_bytes())) {
                Ok(r) => format!("ok:status={}", r.status),
                Err(e) => format!("err:{:?}", e.code),
            }
        }
        SOp::Info(u) => match api.get_subscription_info(user_keys(*u).sign(b"get subscription info")) {
            Ok(r) => format!("ok:slots={}:expiry={}:n={}", r.available_slots, r.subscription_expiry, r.locators.len()),
            Err(e) => format!("err:{:?}", e.code),
        },
        SOp::Poll => {
            let mut g = monitor.lock().unwrap();
            g.as_mut().unwrap().poll();
            "polled".into()
        }
    }
}

/// Strips the parts of the in-memory snapshot that legitimately depend on the order of operations
/// without being observable (the carrier's per-block receipt cache).
fn memory_view(snap: &str) -> String {
    match (snap.find(" receipts=["), snap.find("} reorged=")) {
        (Some(a), Some(b)) if a < b => format!("{}{}", &snap[..a], &snap[b..]),
        _ => snap.to_owned(),
    }
}

fn collect(world: &World) -> Result<Outcome, String> {
    // What the property is about: balances, which appointments are held by whom in which version,
    // which are responded to (and with what), what was submitted to the node, and that memory and
    // tables agree, the block a penalty is confirmed in. Height stamps (start_block, in-mempool-since) are read at slightly different
    // moments than the operation's linearisation point and are deliberately not compared.
    let r = catch_unwind(AssertUnwindSafe(|| {
        let db = world.db_view();
        let gk = world.tower.as_ref().unwrap().gatekeeper.verif_snapshot();
        let _ = world.tower.as_ref().unwrap().snapshot();
        (db, gk)
    }));
    let (db, gk) = match r {
        Ok(x) => x,
        Err(p) => return Err(format!("state unreadable after the operations: {}", crate::world::panic_message(&p))),
    };
    let mut s = String::new();
    for (k, u) in &db.users {
        s.push_str(&format!("U{}:{:?};", &k[..8], u));
    }
    for (k, a) in &db.appointments {
        s.push_str(&format!("A{}:{}:{}:{};", &k[..10], crate::tower::fnv(&a.blob), a.to_self_delay, &a.user[..8]));
    }
    for (k, t) in &db.trackers {
        // the block a confirmed penalty sits in does not depend on the order of the operations (an in-mempool-since does)
        let at = if t.confirmed { format!("@{}", t.height) } else { String::new() };
        s.push_str(&format!("T{}:{}:{}:{}{at};", &k[..10], tx_label(&t.dispute), tx_label(&t.penalty), t.confirmed));
    }
    if db.fk_violations > 0 {
        s.push_str("DANGLING;");
    }
    // memory: the gatekeeper's users (without its height)
    let users_mem = gk[gk.find("users=").unwrap_or(0)..].to_owned();
    let mut users_db: Vec<String> = db.users.iter().map(|(k, u)| format!("{k}:{}/{}/{}", u.0, u.1, u.2)).collect();
    users_db.sort();
    let memory = if users_mem == format!("users={users_db:?}") { "memory=tables".to_owned() } else { format!("memory differs from tables: {users_mem} vs {users_db:?}") };
    let rpcs: BTreeSet<String> = world
        .env
        .lock()
        .rpc_log
        .iter()
        .filter(|r| r.method == "sendrawtransaction")
        .map(|r| format!("send:{}:{}", r.txid.map(|t| tx_label(&t)).unwrap_or_default(), r.verdict))
        .collect();
    Ok(Outcome { results: vec![], db: s, memory, rpcs: rpcs.into_iter().collect() })
}

/// One request and one block must still be served.
fn liveness_probe(world: &mut World) -> Option<String> {
    let r = catch_unwind(AssertUnwindSafe(|| {
        let api = world.api();
        let _ = api.get_subscription_info(user_keys(1).sign(b"get subscription info"));
        let _ = api.register(&user_keys(2));
        world.env.lock().mine(vec![]);
        world.tower.as_mut().unwrap().poll();
        world.tower.as_ref().unwrap().heights()
    }));
    match r {
        Ok((g, _w, _c)) => {
            let h = world.env.lock().height();
            if g != h {
                Some(format!("the block after the operations was not processed (tower at {g}, chain at {h})"))
            } else {
                None
            }
        }
        Err(p) => Some(format!("next request/block panics: {} @{}", crate::world::panic_message(&p), crate::world::take_panic_location())),
    }
}

/// Executes the scenario under the scheduler following `choices` (then the default policy).
pub fn execute(sc: &Scenario, choices: &[usize]) -> Exec {
    let sched = Sched::new(choices.to_vec());
    let guard = setup_hooks(&sched);
    let mut world = World::new(sc.cfg);
    world.boot().unwrap();
    for ev in sc.seed.iter() {
        let o = world.apply(ev);
        assert!(o.panic.is_none(), "seed panicked: {:?}", o.panic);
    }
    drop(guard);
    world.env.lock().send_monitor_db = Some(world.db.path.clone());
    let api = world.api();
    let monitor = Arc::new(StdMutex::new(world.tower.as_mut().unwrap().monitor.take()));
    let log = world.log.clone();
    let bodies: Vec<Box<dyn FnOnce() -> String + Send>> = sc
        .ops
        .iter()
        .map(|op| {
            let op = op.clone();
            let api = api.clone();
            let monitor = monitor.clone();
            let log = log.clone();
            Box::new(move || run_op(&op, &api, &monitor, &log)) as Box<dyn FnOnce() -> String + Send>
        })
        .collect();
    let ex = run_threads(&sched, bodies);
    let m = match monitor.lock() {
        Ok(mut g) => g.take(),
        Err(p) => p.into_inner().take(),
    };
    world.tower.as_mut().unwrap().monitor = m;
    let panics: Vec<(usize, String)> = ex.panics.iter().enumerate().filter_map(|(i, p)| p.clone().map(|p| (i, p))).collect();
    let mut out = Exec {
        outcome: None,
        deadlock: ex.deadlock.clone(),
        panics,
        probe_failure: None,
        diverged: ex.diverged.clone(),
        points: ex.points,
        lock_order: ex.lock_order,
        unjustified_sends: world.env.lock().send_monitor_violations.clone(),
        receipt_notes: vec![],
    };
    if out.deadlock.is_none() && out.panics.is_empty() && out.diverged.is_none() {
        match collect(&world) {
            Ok(mut o) => {
                let raw: Vec<String> = ex.results.iter().map(|r| r.clone().unwrap_or_default()).collect();
                // a receipt must carry the start block that was stored with the appointment
                let db = world.db_view();
                for (op, r) in sc.ops.iter().zip(raw.iter()) {
                    if let (SOp::Add { user, disp, blob }, Some(i)) = (op, r.find(":start=")) {
                        let mut it = r[i + 7..].split(":win=");
                        let start: u32 = it.next().unwrap_or("").parse().unwrap_or(0);
                        // the start block is the tower's height at acceptance: one of the heights between the last chain
                        // event completely handled before the request came in and the last one handed to the listeners
                        // before it was answered
                        if let Some((c0, s1)) = it.next().and_then(|w| w.split_once(',')).and_then(|(a, b)| Some((a.parse::<usize>().ok()?, b.parse::<usize>().ok()?))) {
                            let evs = world.log.lock().unwrap().events.clone();
                            let after = |j: usize| if evs[j].1 { evs[j].3 } else { evs[j].3 - 1 };
                            if c0 >= 1 && s1 >= c0 && s1 <= evs.len() {
                                let allowed: BTreeSet<u32> = (c0 - 1..s1).map(after).collect();
                                if !allowed.contains(&start) {
                                    out.receipt_notes.push(format!("receipt start_block {start} is not a height the tower was at while the request was served (heights then: {allowed:?})"));
                                }
                            }
                        }
                        let loc = teos_common::appointment::Locator::new(crate::sim::txid_of(TxName::D(*disp)));
                        let uuid = crate::tower::uuid_hex(&loc, &user_keys(*user).id());
                        if let Some(row) = db.appointments.get(&uuid) {
                            let same_version = row.blob == crate::world::make_blob(*disp, *blob);
                            let others_same = sc.ops.iter().filter(|o| matches!(o, SOp::Add { user: u2, disp: d2, .. } if u2 == user && d2 == disp)).count() > 1;
                            if same_version && !others_same && row.start_block != start {
                                o.memory = format!("receipt start_block {start} differs from stored start_block {}", row.start_block);
                            }
                        }
                    }
                }
                o.results = raw.iter().map(|r| r.split(":start=").next().unwrap().to_owned()).collect();
                out.outcome = Some(o);
            }
            Err(e) => out.probe_failure = Some(e),
        }
        if out.probe_failure.is_none() {
            out.probe_failure = liveness_probe(&mut world);
        }
    }
    out
}

/// Runs the operations one after another in the given order (no interleaving).
fn sequential(sc: &Scenario, order: &[usize]) -> Result<Outcome, String> {
    let mut world = World::new(sc.cfg);
    world.boot().unwrap();
    for ev in sc.seed.iter() {
        world.apply(ev);
    }
    let api = world.api();
    let monitor = Arc::new(StdMutex::new(world.tower.as_mut().unwrap().monitor.take()));
    let mut results = vec![String::new(); sc.ops.len()];
    for i in order {
        let r = catch_unwind(AssertUnwindSafe(|| run_op(&sc.ops[*i], &api, &monitor, &world.log)));
        match r {
            Ok(s) => results[*i] = s.split(":start=").next().unwrap().to_owned(),
            Err(p) => return Err(format!("sequential order {order:?} panics at op {i}: {} @{}", crate::world::panic_message(&p), crate::world::take_panic_location())),
        }
    }
    let m = match monitor.lock() {
        Ok(mut g) => g.take(),
        Err(p) => p.into_inner().take(),
    };
    world.tower.as_mut().unwrap().monitor = m;
    let mut o = collect(&world)?;
    o.results = results;
    Ok(o)
}

/// Sequential orders at the granularity the property speaks of - *chain events*, not polls: a poll that delivers several
/// blocks (a reorg, a catch-up) is a sequence of events, and a request served between two of them is a sequential
/// order too. `slots[i]` = number of chain events of the poll after which operation i runs (0 = before the poll), on
/// the polling thread itself, from inside the listener; `order` breaks ties. Returns the number of events the poll had.
fn sequential_fine(sc: &Scenario, poll: usize, slots: &[usize], order: &[usize]) -> Result<(Outcome, usize), String> {
    let mut world = World::new(sc.cfg);
    world.boot().unwrap();
    for ev in sc.seed.iter() {
        world.apply(ev);
    }
    let api = world.api();
    let monitor = Arc::new(StdMutex::new(world.tower.as_mut().unwrap().monitor.take()));
    let results: Arc<StdMutex<Vec<Result<String, String>>>> = Arc::new(StdMutex::new(vec![Ok(String::new()); sc.ops.len()]));
    let base = world.log.lock().unwrap().events.len();
    let run_one = |i: usize| {
        let op = sc.ops[i].clone();
        let (api, monitor, log, results) = (api.clone(), monitor.clone(), world.log.clone(), results.clone());
        move || {
            let r = catch_unwind(AssertUnwindSafe(|| run_op(&op, &api, &monitor, &log)));
            results.lock().unwrap()[i] = r.map_err(|p| format!("{} @{}", crate::world::panic_message(&p), crate::world::take_panic_location()));
        }
    };
    for i in order.iter().filter(|i| **i != poll && slots[**i] == 0) {
        run_one(*i)();
    }
    for i in order.iter().filter(|i| **i != poll && slots[**i] > 0) {
        world.log.lock().unwrap().hooks.push((base + slots[*i], Box::new(run_one(*i))));
    }
    run_one(poll)();
    let n_events = world.log.lock().unwrap().events.len() - base;
    // (a slot beyond the last event: after the poll)
    let late: Vec<Box<dyn FnOnce() + Send>> = world.log.lock().unwrap().hooks.drain(..).map(|h| h.1).collect();
    for h in late {
        h();
    }
    let m = match monitor.lock() {
        Ok(mut g) => g.take(),
        Err(p) => p.into_inner().take(),
    };
    world.tower.as_mut().unwrap().monitor = m;
    let results = results.lock().unwrap().clone();
    let mut out = Vec::new();
    for (i, r) in results.into_iter().enumerate() {
        match r {
            Ok(s) => out.push(s.split(":start=").next().unwrap().to_owned()),
            Err(e) => return Err(format!("sequential order (slots {slots:?}) panics at op {i}: {e}")),
        }
    }
    let mut o = collect(&world)?;
    o.results = out;
    Ok((o, n_events))
}

/// All sequential outcomes at chain-event granularity (only for scenarios with exactly one poll that delivers more than
/// one event; the others are covered by the permutations).
fn fine_references(sc: &Scenario, seq: &mut BTreeSet<Outcome>) -> usize {
    let polls: Vec<usize> = sc.ops.iter().enumerate().filter(|(_, o)| **o == SOp::Poll).map(|(i, _)| i).collect();
    if polls.len() != 1 {
        return 0;
    }
    let poll = polls[0];
    let others: Vec<usize> = (0..sc.ops.len()).filter(|i| *i != poll).collect();
    let ident: Vec<usize> = (0..sc.ops.len()).collect();
    let n = match sequential_fine(sc, poll, &vec![0; sc.ops.len()], &ident) {
        Ok((o, n)) => {
            seq.insert(o);
            n
        }
        Err(_) => return 0,
    };
    if n < 2 {
        return 0;
    }
    // every assignment of the other operations to the n+1 gaps, in every order among themselves
    let mut count = 0;
    let mut slots = vec![0usize; sc.ops.len()];
    loop {
        for order in permutations(sc.ops.len()) {
            if let Ok((o, _)) = sequential_fine(sc, poll, &slots, &order) {
                seq.insert(o);
                count += 1;
            }
            if others.len() < 2 {
                break;
            }
        }
        // next assignment
        let mut k = 0;
        loop {
            if k == others.len() {
                return count;
            }
            slots[others[k]] += 1;
            if slots[others[k]] <= n {
                break;
            }
            slots[others[k]] = 0;
            k += 1;
        }
    }
}

fn permutations(n: usize) -> Vec<Vec<usize>> {
    fn rec(cur: &mut Vec<usize>, used: &mut Vec<bool>, out: &mut Vec<Vec<usize>>) {
        if cur.len() == used.len() {
            out.push(cur.clone());
            return;
        }
        for i in 0..used.len() {
            if !used[i] {
                used[i] = true;
                cur.push(i);
                rec(cur, used, out);
                cur.pop();
                used[i] = false;
            }
        }
    }
    let mut out = Vec::new();
    rec(&mut Vec::new(), &mut vec![false; n], &mut out);
    out
}

pub fn scenarios(tier: Tier) -> Vec<Scenario> {
    let cfg = TowerCfg { slots: 3, duration: 400, grace: 6, txindex: false };
    let add = |u, k, b| Ev::Add { user: u, disp: k, blob: b, tsd: 42 };
    let mine = |txs: Vec<TxName>| Ev::Mine(MineSel::Txs(txs));
    let mut v = vec![
        Scenario {
            name: "add-while-dispute-block-is-processed".into(),
            cfg,
            seed: vec![Ev::Register(1), mine(vec![TxName::D(1)])],
            ops: vec![SOp::Add { user: 1, disp: 1, blob: Blob::Valid }, SOp::Poll],
        },
        Scenario {
            name: "same-appointment-twice".into(),
            cfg,
            seed: vec![Ev::Register(1)],
            ops: vec![SOp::Add { user: 1, disp: 1, blob: Blob::Valid }, SOp::Add { user: 1, disp: 1, blob: Blob::Valid }],
        },
        Scenario {
            name: "renew-vs-add".into(),
            cfg,
            seed: vec![Ev::Register(1)],
            ops: vec![SOp::Register(1), SOp::Add { user: 1, disp: 1, blob: Blob::Valid }],
        },
        Scenario {
            name: "completion-refund-vs-add".into(),
            cfg,
            seed: {
                let mut s = crate::checks_t::seed("S5");
                s.push(Ev::MineP(MineSel::Empty));
                s.push(Ev::Mine(MineSel::Empty));
                s
            },
            ops: vec![SOp::Poll, SOp::Add { user: 1, disp: 2, blob: Blob::Valid }],
        },
        Scenario {
            name: "triggered-add-vs-next-block".into(),
            cfg,
            seed: vec![Ev::Register(1), Ev::MineP(MineSel::Txs(vec![TxName::D(1)])), Ev::Mine(MineSel::Empty)],
            ops: vec![SOp::Add { user: 1, disp: 1, blob: Blob::Valid }, SOp::Poll],
        },
        Scenario {
            name: "purge-vs-add".into(),
            cfg: TowerCfg { slots: 3, duration: 1, grace: 1, txindex: false },
            seed: vec![Ev::Register(1), Ev::MineP(MineSel::Empty), Ev::Mine(MineSel::Empty)],
            ops: vec![SOp::Poll, SOp::Add { user: 1, disp: 1, blob: Blob::Valid }],
        },
    ];
    {
        v.extend(vec![
            Scenario {
                name: "get-while-triggered".into(),
                cfg,
                seed: vec![Ev::Register(1), add(1, 1, Blob::Valid), mine(vec![TxName::D(1)])],
                ops: vec![SOp::Get { user: 1, disp: 1 }, SOp::Poll],
            },
            Scenario {
                name: "replace-bigger-vs-renew".into(),
                cfg,
                seed: vec![Ev::Register(1), add(1, 1, Blob::Valid)],
                ops: vec![SOp::Add { user: 1, disp: 1, blob: Blob::Large }, SOp::Register(1)],
            },
            Scenario {
                name: "two-users-register".into(),
                cfg,
                seed: vec![],
                ops: vec![SOp::Register(1), SOp::Register(2)],
            },
            Scenario {
                name: "reorg-vs-add".into(),
                cfg,
                seed: vec![Ev::Register(1), Ev::MineP(MineSel::Txs(vec![TxName::D(1)])), Ev::Reorg { depth: 1, how: Replacement::Same }],
                ops: vec![SOp::Poll, SOp::Add { user: 1, disp: 1, blob: Blob::Valid }],
            },
            Scenario {
                name: "purge-vs-get".into(),
                cfg: TowerCfg { slots: 3, duration: 1, grace: 1, txindex: false },
                seed: vec![Ev::Register(1), add(1, 1, Blob::Valid), Ev::MineP(MineSel::Empty), Ev::Mine(MineSel::Empty)],
                ops: vec![SOp::Poll, SOp::Info(1)],
            },
            Scenario {
                name: "rebroadcast-vs-triggered-add".into(),
                cfg,
                seed: {
                    let mut s = crate::checks_t::seed("S6");
                    s.push(Ev::Register(2));
                    s.push(Ev::Mine(MineSel::Empty));
                    s
                },
                ops: vec![SOp::Poll, SOp::Add { user: 2, disp: 1, blob: Blob::Valid }],
            },
            Scenario {
                name: "reorg-above-dispute-vs-triggered-add".into(),
                cfg,
                seed: vec![
                    Ev::Register(1),
                    Ev::MineP(MineSel::Txs(vec![TxName::D(1)])),
                    Ev::MineP(MineSel::Empty),
                    Ev::Reorg { depth: 1, how: Replacement::Same },
                ],
                ops: vec![SOp::Poll, SOp::Add { user: 1, disp: 1, blob: Blob::Valid }],
            },
            Scenario {
                // the penalty was confirmed (by somebody else) in the block that is being disconnected while the
                // late appointment is handed to the Responder: confirmed-in-that-block must not survive
                name: "reorg-of-the-penalty-block-vs-triggered-add".into(),
                cfg,
                seed: vec![
                    Ev::Register(1),
                    Ev::MineP(MineSel::Txs(vec![TxName::D(1)])),
                    Ev::External(TxName::P(1)),
                    Ev::MineP(MineSel::Mempool),
                    Ev::Reorg { depth: 1, how: Replacement::Unconfirm },
                ],
                ops: vec![SOp::Poll, SOp::Add { user: 1, disp: 1, blob: Blob::Valid }],
            },
            Scenario {
                // the penalty sits in a block that stays; the one above it is being replaced while the late appointment is
                // handed to the Responder: the height recorded for the confirmation is that block's, whatever the index
                // looks like half-way through the reorg
                name: "reorg-above-the-penalty-block-vs-triggered-add".into(),
                cfg,
                seed: vec![
                    Ev::Register(1),
                    Ev::MineP(MineSel::Txs(vec![TxName::D(1)])),
                    Ev::External(TxName::P(1)),
                    Ev::MineP(MineSel::Mempool),
                    Ev::MineP(MineSel::Empty),
                    Ev::Reorg { depth: 1, how: Replacement::Same },
                ],
                ops: vec![SOp::Poll, SOp::Add { user: 1, disp: 1, blob: Blob::Valid }],
            },
            Scenario {
                // the late appointment's penalty is confirmed (by somebody else) in the very block that is being
                // connected: whichever comes first, the tracker ends up confirmed in that block
                name: "block-confirming-the-penalty-vs-triggered-add".into(),
                cfg,
                seed: vec![Ev::Register(1), Ev::MineP(MineSel::Txs(vec![TxName::D(1)])), Ev::External(TxName::P(1)), Ev::Mine(MineSel::Mempool)],
                ops: vec![SOp::Poll, SOp::Add { user: 1, disp: 1, blob: Blob::Valid }],
            },
            Scenario {
                // the user renews while the block that outdates them is being processed
                name: "purge-vs-renewal".into(),
                cfg: TowerCfg { slots: 3, duration: 1, grace: 1, txindex: false },
                seed: vec![Ev::Register(1), add(1, 1, Blob::Valid), Ev::MineP(MineSel::Empty), Ev::Mine(MineSel::Empty)],
                ops: vec![SOp::Poll, SOp::Register(1)],
            },
            Scenario {
                // a held appointment is replaced by one the node refuses (and is therefore dropped) while the block with its
                // dispute is being processed
                name: "refused-update-while-dispute-block-is-processed".into(),
                cfg,
                seed: vec![Ev::Register(1), add(1, 1, Blob::Valid), mine(vec![TxName::D(1)])],
                ops: vec![SOp::Poll, SOp::Add { user: 1, disp: 1, blob: Blob::Bad }],
            },
            Scenario {
                // a read of the subscription while a reorg takes the tower below the height the user registered at
                name: "reorg-below-registration-height-vs-info".into(),
                cfg,
                seed: vec![Ev::MineP(MineSel::Empty), Ev::Register(1), Ev::Reorg { depth: 1, how: Replacement::Same }],
                ops: vec![SOp::Poll, SOp::Info(1)],
            },
            // reads of the subscription next to everything that writes it
            Scenario {
                name: "info-vs-renewal".into(),
                cfg,
                seed: vec![Ev::Register(1), add(1, 1, Blob::Valid)],
                ops: vec![SOp::Info(1), SOp::Register(1)],
            },
            Scenario {
                name: "info-vs-add".into(),
                cfg,
                seed: vec![Ev::Register(1), add(1, 1, Blob::Valid)],
                ops: vec![SOp::Info(1), SOp::Add { user: 1, disp: 2, blob: Blob::Valid }],
            },
            Scenario {
                name: "info-vs-completion-refund".into(),
                cfg,
                seed: {
                    let mut s = crate::checks_t::seed("S5");
                    s.push(Ev::MineP(MineSel::Empty));
                    s.push(Ev::Mine(MineSel::Empty));
                    s
                },
                ops: vec![SOp::Poll, SOp::Info(1)],
            },
            Scenario {
                // a reorg deeper than the six blocks of the locator cache, a request served between any two of its
                // disconnections and connections: the receipt's start block is the height the tower is at just then
                name: "deep-reorg-vs-add".into(),
                cfg,
                seed: vec![Ev::Register(1), Ev::Advance(8), Ev::Reorg { depth: 8, how: Replacement::Same }],
                ops: vec![SOp::Poll, SOp::Add { user: 1, disp: 1, blob: Blob::Valid }],
            },
            Scenario {
                name: "purge-at-expiry-vs-update".into(),
                cfg: TowerCfg { slots: 3, duration: 1, grace: 0, txindex: false },
                seed: vec![Ev::Register(1), add(1, 1, Blob::Valid), Ev::Mine(MineSel::Empty)],
                ops: vec![SOp::Poll, SOp::Add { user: 1, disp: 1, blob: Blob::Alt }],
            },
            Scenario {
                name: "purge-at-expiry-vs-new-add".into(),
                cfg: TowerCfg { slots: 3, duration: 1, grace: 0, txindex: false },
                seed: vec![Ev::Register(1), Ev::Mine(MineSel::Empty)],
                ops: vec![SOp::Poll, SOp::Add { user: 1, disp: 1, blob: Blob::Valid }],
            },
            Scenario {
                name: "purge-at-expiry-vs-triggered-add".into(),
                cfg: TowerCfg { slots: 3, duration: 1, grace: 0, txindex: false },
                seed: vec![Ev::MineP(MineSel::Txs(vec![TxName::D(1)])), Ev::Register(1), Ev::Mine(MineSel::Empty)],
                ops: vec![SOp::Poll, SOp::Add { user: 1, disp: 1, blob: Blob::Valid }],
            },
        ]);
    }
    if tier == Tier::Thorough || std::env::var("VERIF_ALL_SCENARIOS").is_ok() {
        v.extend(vec![
            Scenario {
                name: "triple:add-add-poll".into(),
                cfg,
                seed: vec![Ev::Register(1), Ev::Register(2), mine(vec![TxName::D(1)])],
                ops: vec![SOp::Add { user: 1, disp: 1, blob: Blob::Valid }, SOp::Add { user: 2, disp: 1, blob: Blob::Valid }, SOp::Poll],
            },
            Scenario {
                // no grace period: the block that ends the subscription removes the user, who registers again at once, while
                // a submission charged to the old subscription is still on its way to the database
                name: "triple:expiring-block-add-register".into(),
                cfg: TowerCfg { slots: 3, duration: 1, grace: 0, txindex: false },
                seed: vec![Ev::Register(1), Ev::Mine(MineSel::Empty)],
                ops: vec![SOp::Poll, SOp::Add { user: 1, disp: 1, blob: Blob::Valid }, SOp::Register(1)],
            },
            Scenario {
                name: "triple:renew-add-poll".into(),
                cfg,
                seed: vec![Ev::Register(1), mine(vec![TxName::D(1)])],
                ops: vec![SOp::Register(1), SOp::Add { user: 1, disp: 1, blob: Blob::Valid }, SOp::Poll],
            },
        ]);
    }
    v
}

/// The systematic family: every pair of operations of a small alphabet, next to each other from every one of a
/// list of prepared states in each of which a chain event is pending (so that `Poll` has a block to connect, a
/// reorg to follow, a tracker to complete, a user to purge ...). The hand-written scenarios above are the ones a
/// reader of the code would think of; this family is there for the ones nobody thought of. `with_poll_only`
/// restricts it to the pairs in which one side is the chain event (VERIF_GEN_POLL_ONLY).
pub fn generated(with_poll_only: bool) -> Vec<Scenario> {
    let cfg = TowerCfg { slots: 4, duration: 400, grace: 6, txindex: false };
    let add = |u, k, b| Ev::Add { user: u, disp: k, blob: b, tsd: 42 };
    let seeds: Vec<(&str, TowerCfg, Vec<Ev>)> = vec![
        ("registered+empty-block", cfg, vec![Ev::Register(1), Ev::Mine(MineSel::Empty)]),
        ("watched+dispute-block", cfg, vec![Ev::Register(1), add(1, 1, Blob::Valid), Ev::Mine(MineSel::Txs(vec![TxName::D(1)]))]),
        ("dispute-seen+empty-block", cfg, vec![Ev::Register(1), Ev::MineP(MineSel::Txs(vec![TxName::D(1)])), Ev::Mine(MineSel::Empty)]),
        ("tracker-in-mempool+confirming-block", cfg, {
            let mut s = crate::checks_t::seed("S3");
            s.push(Ev::Mine(MineSel::Mempool));
            s
        }),
        ("tracker-confirmed+reorg", cfg, {
            let mut s = crate::checks_t::seed("S4");
            s.push(Ev::Reorg { depth: 1, how: Replacement::Unconfirm });
            s
        }),
        ("tracker-99-deep+completing-block", cfg, {
            let mut s = crate::checks_t::seed("S5");
            s.push(Ev::MineP(MineSel::Empty));
            s.push(Ev::Mine(MineSel::Empty));
            s
        }),
        ("watched+expiring-block", TowerCfg { slots: 4, duration: 1, grace: 0, txindex: false }, vec![Ev::Register(1), add(1, 1, Blob::Valid), Ev::Mine(MineSel::Empty)]),
        ("two-users-one-locator+dispute-block", cfg, {
            let mut s = crate::checks_t::seed("S2");
            s.push(Ev::Mine(MineSel::Txs(vec![TxName::D(1)])));
            s
        }),
        // polls that deliver more than one event: a two-block catch-up, a reorg two blocks deep
        ("watched+dispute-block-and-another", cfg, vec![Ev::Register(1), add(1, 1, Blob::Valid), Ev::Mine(MineSel::Txs(vec![TxName::D(1)])), Ev::Mine(MineSel::Empty)]),
        ("tracker-confirmed+reorg-two-deep", cfg, {
            let mut s = crate::checks_t::seed("S4");
            s.push(Ev::MineP(MineSel::Empty));
            s.push(Ev::Reorg { depth: 2, how: Replacement::Unconfirm });
            s
        }),
        ("stale-tracker+rebroadcasting-block", cfg, {
            let mut s = crate::checks_t::seed("S6");
            s.push(Ev::Mine(MineSel::Empty));
            s
        }),
    ];
    let ops = vec![
        SOp::Poll,
        SOp::Register(1),
        SOp::Register(2),
        SOp::Add { user: 1, disp: 1, blob: Blob::Valid },
        SOp::Add { user: 1, disp: 1, blob: Blob::Alt },
        SOp::Add { user: 1, disp: 1, blob: Blob::Bad },
        SOp::Add { user: 2, disp: 1, blob: Blob::Valid },
        SOp::Add { user: 1, disp: 2, blob: Blob::Large },
        SOp::Get { user: 1, disp: 1 },
        SOp::Info(1),
    ];
    let is_read = |o: &SOp| matches!(o, SOp::Get { .. } | SOp::Info(_));
    let mut v = Vec::new();
    for (sname, scfg, seed) in seeds.iter() {
        for i in 0..ops.len() {
            for j in i..ops.len() {
                let (a, b) = (&ops[i], &ops[j]);
                // the chain monitor is one thread; two reads cannot influence each other
                if (i == j && *a == SOp::Poll) || (is_read(a) && is_read(b)) {
                    continue;
                }
                if with_poll_only && *a != SOp::Poll {
                    continue;
                }
                v.push(Scenario { name: format!("gen:{sname}:{}+{}", op_label(a), op_label(b)), cfg: *scfg, seed: seed.clone(), ops: vec![a.clone(), b.clone()] });
            }
        }
    }
    v
}

fn op_label(op: &SOp) -> String {
    match op {
        SOp::Register(u) => format!("register{u}"),
        SOp::Add { user, disp, blob } => format!("add{user}.{disp}.{blob:?}").to_lowercase(),
        SOp::Get { user, disp } => format!("get{user}.{disp}"),
        SOp::Info(u) => format!("info{u}"),
        SOp::Poll => "poll".into(),
    }
}

pub struct ScenarioStats {
    pub schedules: u64,
    pub distinct_outcomes: usize,
    pub sequential_outcomes: usize,
    pub max_points: usize,
    pub complete: bool,
    /// every schedule with at most this many pre-emptions was explored
    pub bound_completed: usize,
}

/// Explores every schedule of `sc` with at most `bound` pre-emptions. Violations are reported to
/// `run` under the property ids in `props`.
pub fn explore_scenario(sc: &Scenario, bound: usize, deadline: Instant, run: &Run, props: &[&str]) -> ScenarioStats {
    explore_scenario_w(sc, bound, deadline, run, props, crate::explore::workers().min(12))
}

pub fn explore_scenario_w(sc: &Scenario, bound: usize, deadline: Instant, run: &Run, props: &[&str], workers: usize) -> ScenarioStats {
    // the 17 chain events of a deep reorg make some 200 scheduling points: what the scenario is there for (a request
    // served between any two of them) needs one pre-emption
    let bound = if sc.name.starts_with("deep-reorg") { bound.min(1) } else { bound };
    // sequential reference outcomes
    let mut seq: BTreeSet<Outcome> = BTreeSet::new();
    for order in permutations(sc.ops.len()) {
        match sequential(sc, &order) {
            Ok(o) => {
                seq.insert(o);
            }
            Err(e) => {
                if props.contains(&"C11") {
                    run.violation(
                        &format!("sequential-panic:{}", sc.name),
                        e,
                        json!({"engine": "S", "scenario": sc, "order": order}),
                        1,
                    );
                }
            }
        }
    }
    fine_references(sc, &mut seq);
    // Iterative context bounding: schedules are explored in order of their number of pre-emptions (all with
    // 0, then all with 1, ...), so when the wall budget is hit the bound completed so far is known exactly.
    let queue: StdMutex<std::collections::BinaryHeap<std::cmp::Reverse<(usize, u64, Vec<usize>)>>> =
        StdMutex::new(std::collections::BinaryHeap::from(vec![std::cmp::Reverse((0usize, 0u64, vec![]))]));
    let pushed = std::sync::atomic::AtomicU64::new(1);
    let in_flight = std::sync::atomic::AtomicUsize::new(0);
    let schedules = std::sync::atomic::AtomicU64::new(0);
    let max_points = std::sync::atomic::AtomicUsize::new(0);
    let outcomes: StdMutex<BTreeSet<Outcome>> = StdMutex::new(BTreeSet::new());
    let timed_out = std::sync::atomic::AtomicBool::new(false);
    std::thread::scope(|s| {
        for _ in 0..workers {
            s.spawn(|| loop {
                if Instant::now() > deadline {
                    timed_out.store(true, std::sync::atomic::Ordering::Relaxed);
                    break;
                }
                let item = {
                    let mut q = queue.lock().unwrap();
                    let it = q.pop().map(|std::cmp::Reverse((_, _, p))| p);
                    if it.is_some() {
                        in_flight.fetch_add(1, std::sync::atomic::Ordering::SeqCst);
                    }
                    it
                };
                let prefix = match item {
                    Some(p) => p,
                    None => {
                        if in_flight.load(std::sync::atomic::Ordering::SeqCst) == 0 {
                            break;
                        }
                        std::thread::sleep(Duration::from_millis(1));
                        continue;
                    }
                };
                let ex = execute(sc, &prefix);
                schedules.fetch_add(1, std::sync::atomic::Ordering::Relaxed);
                max_points.fetch_max(ex.points.len(), std::sync::atomic::Ordering::Relaxed);
                let replay = || {
                    json!({"engine": "S", "scenario": sc, "choices": ex.points.iter().map(|p| p.chosen).collect::<Vec<_>>(),
                           "schedule": ex.points.iter().map(|p| p.op.clone()).collect::<Vec<_>>()})
                };
                if let Some(d) = &ex.diverged {
                    run.violation("machinery:replay-diverged", d.clone(), replay(), 0);
                }
                if let Some(d) = &ex.deadlock {
                    if props.contains(&"C11") {
                        // name the cycle by the locks involved
                        let mut locks: Vec<String> = d.split("wants ").skip(1).map(|s| s.split(';').next().unwrap_or("").trim().to_owned()).collect();
                        locks.sort();
                        run.violation(&format!("deadlock:{}", locks.join("+")), format!("scenario {}: {d}", sc.name), replay(), ex.points.len());
                    }
                }
                for (i, p) in ex.panics.iter() {
                    if props.contains(&"C11") {
                        let (msg, loc) = match p.rfind(" @") {
                            Some(j) => (&p[..j], &p[j + 2..]),
                            None => (p.as_str(), ""),
                        };
                        let file = loc.split(':').next().unwrap_or("");
                        let msg: String = msg.chars().take(80).collect();
                        run.violation(
                            &format!("panic:{file}:{msg}:in:{}", op_kind(&sc.ops[*i])),
                            format!("scenario {}: operation {:?} panicked: {p}", sc.name, sc.ops[*i]),
                            replay(),
                            ex.points.len(),
                        );
                    }
                }
                for u in ex.unjustified_sends.iter() {
                    // Informational only (VERIF_STRICT_SENDS=1): a submission that lands just after the
                    // block that removed its owner is equivalent to the sequential order
                    // request-then-block and is judged by the linearizability oracle instead.
                    if std::env::var("VERIF_STRICT_SENDS").is_ok() && (props.contains(&"C02") || props.contains(&"C10")) {
                        run.violation(&format!("unjustified-broadcast-under-schedule:{}", sc.name), format!("scenario {}: {u}", sc.name), replay(), ex.points.len());
                    }
                }
                if let Some(pf) = &ex.probe_failure {
                    if props.contains(&"C11") {
                        run.violation(&format!("not-live-after:{}", sc.name), format!("scenario {}: {pf}", sc.name), replay(), ex.points.len());
                    }
                }
                for n in ex.receipt_notes.iter() {
                    if props.contains(&"C08") {
                        run.violation(&format!("receipt:start-block-is-not-the-towers-height-at-acceptance:under-schedule:{}", sc.name), format!("scenario {}: {n}", sc.name), replay(), ex.points.len());
                    }
                }
                if let Some(o) = &ex.outcome {
                    if props.contains(&"C08") && o.memory.starts_with("receipt start_block") {
                        run.violation(
                            &format!("receipt:start-block-differs-from-what-was-stored:under-schedule:{}", sc.name),
                            format!("scenario {}: {}", sc.name, o.memory),
                            replay(),
                            ex.points.len(),
                        );
                    }
                    let mut g = outcomes.lock().unwrap();
                    g.insert(o.clone());
                    drop(g);
                    if props.contains(&"C10") && !seq.contains(o) {
                        run.violation(
                            &format!("not-linearizable:{}:{}", sc.name, classify(o, &seq)),
                            format!(
                                "scenario {}: outcome of this schedule equals no sequential order. results {:?}; db {}; rpcs {:?}. Sequential outcomes: {:?}",
                                sc.name,
                                o.results,
                                o.db,
                                o.rpcs,
                                seq.iter().map(|s| (s.results.clone(), s.db.clone())).collect::<Vec<_>>()
                            ),
                            replay(),
                            ex.points.len(),
                        );
                    }
                }
                let kids = crate::sched::children_with_cost(prefix.len(), &ex.points, bound);
                if ex.diverged.is_none() {
                    let mut q = queue.lock().unwrap();
                    for (cost, k) in kids {
                        q.push(std::cmp::Reverse((cost, pushed.fetch_add(1, std::sync::atomic::Ordering::Relaxed), k)));
                    }
                }
                in_flight.fetch_sub(1, std::sync::atomic::Ordering::SeqCst);
            });
        }
    });
    let n_out = outcomes.lock().unwrap().len();
    let bound_completed = match queue.lock().unwrap().peek() {
        Some(std::cmp::Reverse((cost, _, _))) => cost.saturating_sub(1),
        None => bound,
    };
    ScenarioStats {
        bound_completed,
        schedules: schedules.load(std::sync::atomic::Ordering::Relaxed),
        distinct_outcomes: n_out,
        sequential_outcomes: seq.len(),
        max_points: max_points.load(std::sync::atomic::Ordering::Relaxed),
        complete: !timed_out.load(std::sync::atomic::Ordering::Relaxed),
    }
}

fn op_kind(op: &SOp) -> &'static str {
    match op {
        SOp::Register(_) => "register",
        SOp::Add { .. } => "add",
        SOp::Get { .. } => "get",
        SOp::Info(_) => "info",
        SOp::Poll => "poll",
    }
}

/// What distinguishes a non-linearizable outcome from the closest sequential one.
fn classify(o: &Outcome, seq: &BTreeSet<Outcome>) -> String {
    let mut best = String::from("state");
    for s in seq {
        if s.results == o.results && s.db != o.db {
            best = "replies-match-but-tables-differ".into();
        }
        if s.db == o.db && s.results != o.results {
            return "tables-match-but-replies-differ".into();
        }
        if s.db == o.db && s.results == o.results && s.memory != o.memory {
            return "memory-differs-from-tables".into();
        }
        if s.db == o.db && s.results == o.results && s.rpcs != o.rpcs {
            return "different-rpcs".into();
        }
    }
    best
}

pub fn replay(v: &serde_json::Value) -> i32 {
    let sc: Scenario = serde_json::from_value(v["replay"]["scenario"].clone()).unwrap();
    let choices: Vec<usize> = serde_json::from_value(v["replay"]["choices"].clone()).unwrap_or_default();
    let a = execute(&sc, &choices);
    let b = execute(&sc, &choices);
    println!("scenario {} ops {:?}", sc.name, sc.ops);
    for p in a.points.iter() {
        println!("  {}  (enabled {:?})", p.op, p.enabled);
    }
    println!("deadlock: {:?}\npanics: {:?}\nprobe: {:?}\noutcome: {:?}", a.deadlock, a.panics, a.probe_failure, a.outcome.as_ref().map(|o| (&o.results, &o.db, &o.rpcs)));
    let same = a.points.iter().map(|p| &p.op).collect::<Vec<_>>() == b.points.iter().map(|p| &p.op).collect::<Vec<_>>() && a.outcome == b.outcome;
    println!("replayed twice, identical: {same}");
    (a.deadlock.is_some() || !a.panics.is_empty() || a.probe_failure.is_some()) as i32
}

fn run_s(prop: &'static str, tier: Tier) -> i32 {
    let run = Run::new(prop, "model_checking", tier);
    if prop == "C10" && crate::sched::selftest() != 0 {
        eprintln!("MACHINERY-ERROR: scheduler self-test failed");
        return 2;
    }
    let bound = std::env::var("VERIF_PREEMPTIONS").ok().and_then(|v| v.parse().ok()).unwrap_or(if tier == Tier::Quick { 3 } else { 4 });
    let total = Duration::from_secs(std::env::var("VERIF_BUDGET_S").ok().and_then(|v| v.parse().ok()).unwrap_or(if tier == Tier::Quick { if prop == "C11" { 18 } else { 36 } } else { 900 }));
    let started = Instant::now();
    let mut scs = scenarios(tier);
    // debugging aid: only the scenarios whose name contains the given text (the evidence then says so)
    let only = std::env::var("VERIF_ONLY_SCENARIO").ok();
    if let Some(o) = &only {
        scs.retain(|s| s.name.contains(o.as_str()));
        run.set("restricted_to_scenarios_containing", json!(o));
    }
    let mut total_sched = 0u64;
    let mut total_out = 0usize;
    let mut detail = Vec::new();
    let mut complete = true;
    let mut min_bound_completed = bound;
    let n = scs.len();
    for (i, sc) in scs.iter().enumerate() {
        let remaining = total.saturating_sub(started.elapsed());
        let share = remaining / (n - i) as u32;
        let st = explore_scenario(sc, bound, Instant::now() + share.max(Duration::from_secs(2)), &run, &[prop]);
        total_sched += st.schedules;
        total_out += st.distinct_outcomes;
        complete &= st.complete;
        // (the deep-reorg scenario is explored with one pre-emption by design, see explore_scenario_w)
        min_bound_completed = min_bound_completed.min(if sc.name.starts_with("deep-reorg") && st.bound_completed >= 1 { bound } else { st.bound_completed });
        detail.push(json!({"scenario": sc.name, "operations": sc.ops.iter().map(|o| format!("{o:?}")).collect::<Vec<_>>(),
            "schedules": st.schedules, "distinct_outcomes": st.distinct_outcomes, "sequential_outcomes": st.sequential_outcomes,
            "max_scheduling_points": st.max_points, "all_schedules_within_bound_explored": st.complete, "preemption_bound_completed": st.bound_completed}));
        run.sample(json!({"scenario": sc.name, "seed": sc.seed.iter().map(|e| format!("{e:?}")).collect::<Vec<_>>(), "ops": sc.ops.iter().map(|o| format!("{o:?}")).collect::<Vec<_>>()}));
    }
    // the systematic family (every pair of operations from every prepared state), scenarios side by side
    let gen_only_poll = std::env::var("VERIF_GEN_POLL_ONLY").is_ok();
    let gen_bound: usize = std::env::var("VERIF_GEN_PREEMPTIONS").ok().and_then(|v| v.parse().ok()).unwrap_or(if tier == Tier::Quick { 1 } else { 2 });
    let gen_budget = Duration::from_secs(std::env::var("VERIF_GEN_BUDGET_S").ok().and_then(|v| v.parse().ok()).unwrap_or(if tier == Tier::Quick { 25 } else { 1500 }));
    let mut gens = generated(gen_only_poll);
    if let Some(o) = &only {
        gens.retain(|s| s.name.contains(o.as_str()));
    }
    let gen_deadline = Instant::now() + gen_budget;
    let gen_started = Instant::now();
    let (gen_stats, _) = crate::explore::par_map(&gens, None, |_, sc| explore_scenario_w(sc, gen_bound, gen_deadline, &run, &[prop], 1));
    let mut gen_sched = 0u64;
    let mut gen_out = 0usize;
    let mut gen_complete = 0usize;
    let mut gen_multi = 0usize;
    let mut gen_detail = Vec::new();
    for (sc, st) in gens.iter().zip(gen_stats.iter()) {
        let st = st.as_ref().expect("no deadline given to par_map");
        gen_sched += st.schedules;
        gen_out += st.distinct_outcomes;
        if st.complete && st.bound_completed >= gen_bound {
            gen_complete += 1;
        }
        if st.distinct_outcomes > 1 {
            gen_multi += 1;
        }
        gen_detail.push(json!([sc.name, st.schedules, st.distinct_outcomes, st.sequential_outcomes, st.bound_completed]));
    }
    total_sched += gen_sched;
    total_out += gen_out;
    run.set(
        "generated_family",
        json!({"what": "every pair of operations of the alphabet (chain event, registration of an old / a new user, five submissions, two reads) next to each other from every one of eleven prepared states with a pending chain event; quick tier: one pre-emption, thorough: two",
            "scenarios": gens.len(), "preemption_bound": gen_bound, "scenarios_completed_at_that_bound": gen_complete, "schedules": gen_sched,
            "scenarios_with_more_than_one_outcome": gen_multi, "wall_s": gen_started.elapsed().as_secs_f64(),
            "per_scenario_[name,schedules,distinct_outcomes,sequential_outcomes,bound_completed]": gen_detail}),
    );
    // self-check of the engine: one schedule replayed twice must give identical observations
    let first = scenarios(tier).remove(0);
    let a = execute(&first, &[]);
    let b = execute(&first, &[]);
    if a.points.iter().map(|p| &p.op).collect::<Vec<_>>() != b.points.iter().map(|p| &p.op).collect::<Vec<_>>() || a.outcome != b.outcome {
        eprintln!("MACHINERY-ERROR: the same schedule gave different observations (uncontrolled nondeterminism)");
        return 2;
    }
    if prop == "C11" {
        // sequential half: no history of requests, blocks and node replies makes a handler or the
        // chain loop panic (engine T); its counts are added to states/transitions by merge_stats
        crate::checks_t::c11_sequential(&run, tier, if tier == Tier::Quick { 14 } else { 400 });
        // ... and no reply of the node does: every RPC of the steps that talk to the node, answered with
        // every listed JSON-RPC error (or a result of the wrong shape)
        let n = crate::checks_outage::node_replies(&run, tier);
        run.set("node_reply_fault_placements", json!(n));
    }
    run.add("states", total_out.max(1) as u64);
    run.add("transitions", total_sched);
    run.set("schedules", json!(total_sched));
    // the bound claimed is what every scenario completes comfortably (2 quick / 3 thorough); schedules with
    // one more pre-emption are explored with what is left of the budget and reported per scenario
    let claimed = bound.saturating_sub(1).max(1);
    let _ = complete;
    run.set("preemption_bound", json!(claimed));
    run.set("preemption_bound_attempted", json!(bound));
    run.set("preemption_bound_completed_in_every_scenario", json!(min_bound_completed));
    run.set("exhaustive", json!(min_bound_completed >= claimed));
    run.set("traces_validated_against_impl", json!(0));
    run.set("scenarios", json!(detail));
    run.set("rule_histories", json!("C11 only: plus explicit-state BFS over tower histories (C01 alphabets and resubmission of an appointment in every lifecycle state) with the panic / restart-failure detectors"));
    run.set("rule", json!("stateless model checking of the real tower under a controlled scheduler: every lock acquisition, condition wait/notify and atomic load/store of gatekeeper, watcher, responder, carrier, chain monitor and internal API is a scheduling point; all schedules with at most `preemption_bound` pre-emptions of each scenario's operations are executed, by re-execution of choice sequences in order of their number of pre-emptions (iterative context bounding: all schedules with 0 pre-emptions, then 1, ...; `preemption_bound_completed` is what the wall budget allowed per scenario); states = distinct observable outcomes (replies, tables, memory, RPC multiset), transitions = schedules executed; every schedule is an implementation trace"));
    run.assume("sequential consistency for the two AtomicU32 heights; no unsynchronised shared state (the crates contain no unsafe code and no statics)");
    run.assume("the simulated bitcoind is only reached under the carrier lock / from the polling thread");
    run.finish()
}

/// C08 under concurrency: the receipt's start block is the one stored, whatever block event the request
/// overlaps with (every schedule with at most `bound` pre-emptions of the scenarios in which an
/// add_appointment runs next to a chain event). Returns (schedules, scenarios).
pub fn receipts_under_schedules(run: &Run, tier: Tier, budget: Duration) -> (u64, usize) {
    let bound = if tier == Tier::Quick { 2 } else { 3 };
    let scs: Vec<Scenario> = scenarios(tier).into_iter().filter(|s| s.ops.contains(&SOp::Poll) && s.ops.iter().any(|o| matches!(o, SOp::Add { .. }))).collect();
    let started = Instant::now();
    let n = scs.len();
    let mut total = 0u64;
    for (i, sc) in scs.iter().enumerate() {
        let remaining = budget.saturating_sub(started.elapsed());
        let share = remaining / (n - i) as u32;
        let st = explore_scenario(sc, bound, Instant::now() + share.max(Duration::from_millis(500)), run, &["C08"]);
        total += st.schedules;
    }
    (total, n)
}

pub fn c10(tier: Tier) -> i32 {
    run_s("C10", tier)
}

pub fn c11(tier: Tier) -> i32 {
    run_s("C11", tier)
}
