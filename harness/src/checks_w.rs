//! C18: the client's store (engine W): BFS over WTClient operations with a reload after every prefix.

use std::collections::{BTreeMap, BTreeSet};
use std::path::PathBuf;
use std::sync::atomic::{AtomicU64, Ordering};
use std::time::Duration;

use serde_json::json;

use teos_common::appointment::{Appointment, Locator};
use teos_common::receipts::{AppointmentReceipt, RegistrationReceipt};
use teos_common::TowerId;
use watchtower_plugin::wt_client::WTClient;
use watchtower_plugin::{MisbehaviorProof, TowerStatus};

use crate::explore::{bfs, fingerprint, merge_stats, Model, StepResult};
use crate::report::{Run, Tier};
use crate::tower::Keys;

#[derive(Clone, Debug, PartialEq, Eq, Hash, serde::Serialize, serde::Deserialize)]
pub enum WOp {
    Register(u8),
    /// a receipt that does not extend the subscription (must be refused)
    StaleRegister(u8),
    Receipt(u8, u8),
    Pending(u8, u8),
    RemovePending(u8, u8),
    Invalid(u8, u8),
    PendingToAccepted(u8, u8),
    PendingToInvalid(u8, u8),
    Misbehaving(u8, u8),
    Abandon(u8),
    /// the same notification handled twice (accepted again with the same receipt and balance)
    RepeatReceipt(u8, u8),
    /// an acceptance that was in flight when the tower was proven misbehaving on that very appointment
    LateReceipt(u8, u8),
    RepeatPending(u8, u8),
    RepeatInvalid(u8, u8),
    /// an acknowledgement that reports more free slots than the client knows of (the tower handed slots back, or two
    /// acknowledgements are processed out of order)
    ReceiptMoreSlots(u8, u8),
    /// the same notification acknowledged again, this time with another balance (the tower had forgotten the appointment
    /// and took it as a new one): the receipt on record stays, and what is shown stays what is stored
    RepeatReceiptOtherBalance(u8, u8),
    /// the answer to a delivery arrives for a tower that does not hold the commitment as pending (any more): it was
    /// abandoned and registered again meanwhile. Whatever another tower holds for that commitment stays.
    LateRemovePending(u8, u8),
}

fn tower_id(t: u8) -> TowerId {
    Keys::from_byte(0xe0 + t).id()
}

fn locator(l: u8) -> Locator {
    Locator::from_slice(&[l; 16]).unwrap()
}

fn appointment(l: u8) -> Appointment {
    Appointment::new(locator(l), vec![l, 0xaa, 0xbb, l], 42)
}

fn receipt(t: u8, l: u8) -> AppointmentReceipt {
    AppointmentReceipt::with_signature(format!("usersig-{l}"), 100 + l as u32, format!("towersig-{t}-{l}"))
}

#[derive(Clone, Debug, Default, PartialEq, Eq)]
struct RefTower {
    net_addr: String,
    slots: u32,
    start: u32,
    expiry: u32,
    receipts: BTreeMap<u8, String>,
    pending: BTreeSet<u8>,
    invalid: BTreeSet<u8>,
    proof: Option<u8>,
    registrations: u32,
}

#[derive(Clone, Debug, Default)]
struct Reference {
    towers: BTreeMap<u8, RefTower>,
}

impl Reference {
    fn bodies(&self) -> BTreeSet<u8> {
        let mut s = BTreeSet::new();
        for t in self.towers.values() {
            s.extend(t.pending.iter());
            s.extend(t.invalid.iter());
        }
        s
    }
}

static DIRS: AtomicU64 = AtomicU64::new(0);

struct Scratch(PathBuf);
impl Drop for Scratch {
    fn drop(&mut self) {
        let _ = std::fs::remove_dir_all(&self.0);
    }
}

/// Sorts every array of strings inside a JSON value (sets are serialised in hash order).
fn canon(mut v: serde_json::Value) -> serde_json::Value {
    match &mut v {
        serde_json::Value::Array(a) => {
            let mut items: Vec<serde_json::Value> = a.drain(..).map(canon).collect();
            if items.iter().all(|x| x.is_string()) {
                items.sort_by(|x, y| x.as_str().cmp(&y.as_str()));
            }
            serde_json::Value::Array(items)
        }
        serde_json::Value::Object(m) => {
            let keys: Vec<String> = m.keys().cloned().collect();
            for k in keys {
                let x = m.remove(&k).unwrap();
                m.insert(k, canon(x));
            }
            v
        }
        _ => v,
    }
}

fn rt() -> tokio::runtime::Runtime {
    tokio::runtime::Builder::new_current_thread().enable_all().build().unwrap()
}

fn open(dir: &PathBuf, rt: &tokio::runtime::Runtime) -> WTClient {
    let (tx, rx) = tokio::sync::mpsc::unbounded_channel();
    std::mem::forget(rx); // the retry manager's end: keep the channel open
    rt.block_on(WTClient::new(dir.clone(), tx))
}

fn raw_rows(dir: &PathBuf) -> BTreeMap<String, BTreeSet<String>> {
    let conn = rusqlite::Connection::open_with_flags(dir.join("watchtowers_db.sql3"), rusqlite::OpenFlags::SQLITE_OPEN_READ_ONLY).unwrap();
    let mut out = BTreeMap::new();
    for (table, cols) in [
        ("towers", "hex(tower_id)"),
        ("registration_receipts", "hex(tower_id) || ':' || subscription_expiry"),
        ("appointment_receipts", "hex(tower_id) || ':' || hex(locator)"),
        ("pending_appointments", "hex(tower_id) || ':' || hex(locator)"),
        ("invalid_appointments", "hex(tower_id) || ':' || hex(locator)"),
        ("misbehaving_proofs", "hex(tower_id) || ':' || hex(locator)"),
        ("appointments", "hex(locator)"),
    ] {
        let mut st = conn.prepare(&format!("SELECT {cols} FROM {table}")).unwrap();
        let rows: BTreeSet<String> = st.query_map([], |r| r.get::<_, String>(0)).unwrap().map(|r| r.unwrap()).collect();
        out.insert(table.to_owned(), rows);
    }
    let fk: usize = {
        let mut st = conn.prepare("PRAGMA foreign_key_check").unwrap();
        let mut rows = st.query([]).unwrap();
        let mut n = 0;
        while let Some(_r) = rows.next().unwrap() {
            n += 1;
        }
        n
    };
    if fk > 0 {
        out.insert("FOREIGN_KEY_VIOLATIONS".into(), [format!("{fk}")].into_iter().collect());
    }
    out
}

struct WWorld {
    _scratch: Scratch,
    dir: PathBuf,
    rt: tokio::runtime::Runtime,
    client: WTClient,
    reference: Reference,
}

impl WWorld {
    fn new() -> WWorld {
        let base = if std::path::Path::new("/dev/shm").is_dir() { PathBuf::from("/dev/shm") } else { std::env::temp_dir() };
        let dir = base.join(format!("verif-wt-{}", std::process::id())).join(format!("{}", DIRS.fetch_add(1, Ordering::Relaxed)));
        let _ = std::fs::remove_dir_all(&dir);
        std::fs::create_dir_all(&dir).unwrap();
        let rt = rt();
        let client = open(&dir, &rt);
        WWorld { _scratch: Scratch(dir.clone()), dir, rt, client, reference: Reference::default() }
    }

    fn enabled(&self) -> Vec<WOp> {
        let mut v = Vec::new();
        for t in 1..=2u8 {
            let rt_ = self.reference.towers.get(&t);
            match rt_ {
                None => v.push(WOp::Register(t)),
                Some(rt_) => {
                    if rt_.registrations < 2 {
                        v.push(WOp::Register(t));
                        v.push(WOp::StaleRegister(t));
                    }
                    v.push(WOp::Abandon(t));
                    for l in 1..=2u8 {
                        let has_receipt = rt_.receipts.contains_key(&l);
                        let pending = rt_.pending.contains(&l);
                        let invalid = rt_.invalid.contains(&l);
                        let held_by_another = self.reference.towers.iter().any(|(t2, o)| *t2 != t && (o.pending.contains(&l) || o.invalid.contains(&l)));
                        if !pending && held_by_another {
                            v.push(WOp::LateRemovePending(t, l));
                        }
                        if !has_receipt && !pending && !invalid && rt_.proof.is_none() {
                            v.push(WOp::Receipt(t, l));
                            v.push(WOp::ReceiptMoreSlots(t, l));
                            v.push(WOp::Pending(t, l));
                            v.push(WOp::Invalid(t, l));
                            v.push(WOp::Misbehaving(t, l));
                        }
                        if has_receipt && rt_.proof.is_none() {
                            v.push(WOp::RepeatReceipt(t, l));
                            v.push(WOp::RepeatReceiptOtherBalance(t, l));
                            if !pending && !invalid {
                                // a repeated notification answered with a wrong signature this time
                                v.push(WOp::Misbehaving(t, l));
                            }
                        }
                        if rt_.proof == Some(l) {
                            v.push(WOp::LateReceipt(t, l));
                        }
                        if pending {
                            v.push(WOp::RepeatPending(t, l));
                        }
                        if invalid {
                            v.push(WOp::RepeatInvalid(t, l));
                        }
                        if pending && !has_receipt {
                            v.push(WOp::RemovePending(t, l));
                            v.push(WOp::PendingToAccepted(t, l));
                            if !invalid {
                                v.push(WOp::PendingToInvalid(t, l));
                            }
                            if rt_.proof.is_none() {
                                v.push(WOp::Misbehaving(t, l));
                            }
                        }
                    }
                }
            }
        }
        v
    }

    fn apply(&mut self, op: &WOp) -> Result<(), String> {
        let r = std::panic::catch_unwind(std::panic::AssertUnwindSafe(|| self.apply_inner(op)));
        match r {
            Ok(()) => Ok(()),
            Err(p) => Err(format!("{} @{}", crate::world::panic_message(&p), crate::world::take_panic_location())),
        }
    }

    fn apply_inner(&mut self, op: &WOp) {
        let c = &mut self.client;
        match op {
            WOp::Register(t) => {
                let e = self.reference.towers.entry(*t).or_default();
                let n = e.registrations + 1;
                let (slots, start, expiry) = (100 * n + e.slots.saturating_sub(100 * e.registrations), 1, 1000 * n);
                let rcpt = RegistrationReceipt::with_signature(crate::tower::user_keys(1).id(), slots, start, expiry, format!("regsig-{t}-{n}"));
                let addr = format!("http://tower{t}:98{n}4");
                let r = c.add_update_tower(tower_id(*t), &addr, &rcpt);
                assert!(r.is_ok(), "valid registration refused: {r:?}");
                e.registrations = n;
                e.net_addr = addr;
                e.slots = slots;
                e.start = start;
                e.expiry = expiry;
            }
            WOp::StaleRegister(t) => {
                let e = self.reference.towers.get(t).unwrap();
                let rcpt = RegistrationReceipt::with_signature(crate::tower::user_keys(1).id(), e.slots + 50, 1, e.expiry, "stale".into());
                let r = c.add_update_tower(tower_id(*t), "http://evil:1", &rcpt);
                assert!(r.is_err(), "a receipt that does not extend the subscription was accepted");
            }
            WOp::Receipt(t, l) => {
                let e = self.reference.towers.get_mut(t).unwrap();
                e.slots -= 1;
                c.add_appointment_receipt(tower_id(*t), locator(*l), e.slots, &receipt(*t, *l));
                e.receipts.insert(*l, format!("towersig-{t}-{l}"));
            }
            WOp::ReceiptMoreSlots(t, l) => {
                let e = self.reference.towers.get_mut(t).unwrap();
                e.slots += 1;
                c.add_appointment_receipt(tower_id(*t), locator(*l), e.slots, &receipt(*t, *l));
                e.receipts.insert(*l, format!("towersig-{t}-{l}"));
            }
            WOp::Pending(t, l) => {
                c.add_pending_appointment(tower_id(*t), &appointment(*l));
                self.reference.towers.get_mut(t).unwrap().pending.insert(*l);
            }
            WOp::RemovePending(t, l) => {
                c.remove_pending_appointment(tower_id(*t), locator(*l));
                self.reference.towers.get_mut(t).unwrap().pending.remove(l);
            }
            WOp::Invalid(t, l) => {
                c.add_invalid_appointment(tower_id(*t), &appointment(*l));
                self.reference.towers.get_mut(t).unwrap().invalid.insert(*l);
            }
            WOp::PendingToAccepted(t, l) => {
                // order used by the retrier
                let e = self.reference.towers.get_mut(t).unwrap();
                e.slots -= 1;
                c.add_appointment_receipt(tower_id(*t), locator(*l), e.slots, &receipt(*t, *l));
                c.remove_pending_appointment(tower_id(*t), locator(*l));
                e.receipts.insert(*l, format!("towersig-{t}-{l}"));
                e.pending.remove(l);
            }
            WOp::PendingToInvalid(t, l) => {
                c.add_invalid_appointment(tower_id(*t), &appointment(*l));
                c.remove_pending_appointment(tower_id(*t), locator(*l));
                let e = self.reference.towers.get_mut(t).unwrap();
                e.invalid.insert(*l);
                e.pending.remove(l);
            }
            WOp::Misbehaving(t, l) => {
                let proof = MisbehaviorProof::new(locator(*l), receipt(*t, *l), tower_id(9));
                c.flag_misbehaving_tower(tower_id(*t), proof);
                let e = self.reference.towers.get_mut(t).unwrap();
                e.proof = Some(*l);
                e.receipts.insert(*l, format!("towersig-{t}-{l}"));
            }
            WOp::RepeatReceipt(t, l) | WOp::LateReceipt(t, l) => {
                // nothing changes: the record is there (resp. the proof stays what it is)
                let slots = self.reference.towers[t].slots;
                c.add_appointment_receipt(tower_id(*t), locator(*l), slots, &receipt(*t, *l));
            }
            WOp::RepeatReceiptOtherBalance(t, l) => {
                let slots = self.reference.towers[t].slots;
                c.add_appointment_receipt(tower_id(*t), locator(*l), slots.saturating_sub(1), &receipt(*t, *l));
            }
            WOp::LateRemovePending(t, l) => c.remove_pending_appointment(tower_id(*t), locator(*l)),
            WOp::RepeatPending(t, l) => c.add_pending_appointment(tower_id(*t), &appointment(*l)),
            WOp::RepeatInvalid(t, l) => c.add_invalid_appointment(tower_id(*t), &appointment(*l)),
            WOp::Abandon(t) => {
                let r = c.remove_tower(tower_id(*t));
                assert!(r.is_ok(), "abandon failed: {r:?}");
                self.reference.towers.remove(t);
            }
        }
    }

    fn check(&self, after: &WOp) -> Vec<(String, String)> {
        let mut v: Vec<(String, String)> = Vec::new();
        let kind = format!("{after:?}");
        let kind = kind.split('(').next().unwrap().to_owned();
        // 1. memory (listtowers) vs disk (load_towers) vs reference
        let disk = self.client.dbm.load_towers();
        let mem = &self.client.towers;
        let ids: BTreeSet<String> = self.reference.towers.keys().map(|t| tower_id(*t).to_string()).collect();
        let mem_ids: BTreeSet<String> = mem.keys().map(|t| t.to_string()).collect();
        let disk_ids: BTreeSet<String> = disk.keys().map(|t| t.to_string()).collect();
        let key = |s: &BTreeSet<String>| s.iter().map(|t| t[..6].to_owned()).collect::<Vec<_>>();
        if mem_ids != ids || disk_ids != ids {
            v.push((format!("towers:set-differs:after-{kind}"), format!("memory {:?} disk {:?} expected {:?}", key(&mem_ids), key(&disk_ids), key(&ids))));
            return v;
        }
        for (t, r) in self.reference.towers.iter() {
            let id = tower_id(*t);
            let m = &mem[&id];
            let d = &disk[&id];
            let locs = |s: &BTreeSet<u8>| s.iter().map(|l| locator(*l)).collect::<std::collections::HashSet<_>>();
            let mj = serde_json::to_value(m).unwrap();
            let dj = serde_json::to_value(d).unwrap();
            for (what, src, j) in [("memory", m, &mj), ("disk", d, &dj)] {
                if src.available_slots != r.slots
                    || src.subscription_expiry != r.expiry
                    || j["subscription_start"] != json!(r.start)
                    || j["net_addr"] != json!(r.net_addr)
                    || src.pending_appointments != locs(&r.pending)
                    || src.invalid_appointments != locs(&r.invalid)
                {
                    v.push((
                        format!("summary:{what}-differs-from-model:after-{kind}"),
                        format!("tower {t}: {what} {j} but model {r:?}"),
                    ));
                }
            }
            // status implied by what is stored
            let implied = if r.proof.is_some() {
                TowerStatus::Misbehaving
            } else if !r.pending.is_empty() {
                TowerStatus::TemporaryUnreachable
            } else {
                TowerStatus::Reachable
            };
            if d.status != implied {
                v.push((format!("status:reload-gives-{}", d.status), format!("tower {t}: reloaded status {} but stored data implies {implied}", d.status)));
            }
            // 2. gettowerinfo
            match self.client.load_tower_info(id) {
                None => v.push((format!("record:missing:after-{kind}"), format!("tower {t}"))),
                Some(info) => {
                    let rec: BTreeMap<String, String> = info.appointments.iter().map(|(k, s)| (k.to_string(), s.clone())).collect();
                    let exp: BTreeMap<String, String> = r.receipts.iter().map(|(l, s)| (locator(*l).to_string(), s.clone())).collect();
                    let pend: BTreeSet<Vec<u8>> = info.pending_appointments.iter().map(|a| a.to_vec()).collect();
                    let inv: BTreeSet<Vec<u8>> = info.invalid_appointments.iter().map(|a| a.to_vec()).collect();
                    let epend: BTreeSet<Vec<u8>> = r.pending.iter().map(|l| appointment(*l).to_vec()).collect();
                    let einv: BTreeSet<Vec<u8>> = r.invalid.iter().map(|l| appointment(*l).to_vec()).collect();
                    if rec != exp || pend != epend || inv != einv || info.available_slots != r.slots || info.subscription_expiry != r.expiry || info.net_addr != r.net_addr {
                        v.push((format!("record:differs-from-model:after-{kind}"), format!("tower {t}: gettowerinfo {:?} vs model {r:?}", serde_json::to_value(&info).unwrap())));
                    }
                    // the proof is the receipt this very tower handed out (other towers may hold receipts for the same commitment)
                    if let (Some(p), Some(l)) = (info.misbehaving_proof.as_ref(), r.proof) {
                        if p.appointment_receipt.signature() != receipt(*t, l).signature() || p.recovered_id != tower_id(9) {
                            v.push((format!("record:proof-is-not-the-receipt-of-this-tower:after-{kind}"), format!("tower {t}: proof receipt {:?} recovered id {}", p.appointment_receipt.signature(), p.recovered_id)));
                        }
                    }
                    if info.misbehaving_proof.as_ref().map(|p| p.locator) != r.proof.map(locator) || info.status != implied {
                        v.push((format!("record:proof-or-status:after-{kind}"), format!("tower {t}: proof {:?} status {} vs model proof {:?} implied {implied}", info.misbehaving_proof.as_ref().map(|p| p.locator), info.status, r.proof)));
                    }
                }
            }
        }
        // 3. a fresh client on the same directory reproduces it
        let again = open(&self.dir, &self.rt);
        let a: BTreeMap<String, serde_json::Value> = again.towers.iter().map(|(k, s)| (k.to_string(), canon(serde_json::to_value(s).unwrap()))).collect();
        let b: BTreeMap<String, serde_json::Value> = disk.iter().map(|(k, s)| (k.to_string(), canon(serde_json::to_value(s).unwrap()))).collect();
        if a != b {
            v.push((format!("reload:differs:after-{kind}"), format!("fresh client {a:?} vs load_towers {b:?}")));
        }
        drop(again);
        // 4. raw rows: only the model's towers; bodies present iff referenced
        let rows = raw_rows(&self.dir);
        if rows.contains_key("FOREIGN_KEY_VIOLATIONS") {
            v.push(("rows:dangling".into(), format!("{rows:?}")));
        }
        let hexid = |t: u8| hex::encode_upper(tower_id(t).to_vec());
        for (table, set) in rows.iter() {
            if table == "appointments" || table == "FOREIGN_KEY_VIOLATIONS" {
                continue;
            }
            for row in set {
                let owner = row.split(':').next().unwrap();
                if !self.reference.towers.keys().any(|t| hexid(*t) == owner) {
                    v.push((format!("rows:left-behind-in-{table}:after-{kind}"), format!("row {row} belongs to no registered tower")));
                }
            }
        }
        let exp_rows = |f: &dyn Fn(&RefTower) -> Vec<u8>| -> BTreeSet<String> {
            self.reference.towers.iter().flat_map(|(t, r)| f(r).into_iter().map(move |l| format!("{}:{}", hexid(*t), hex::encode_upper([l; 16])))).collect()
        };
        for (table, exp) in [
            ("pending_appointments", exp_rows(&|r| r.pending.iter().cloned().collect())),
            ("invalid_appointments", exp_rows(&|r| r.invalid.iter().cloned().collect())),
            ("appointment_receipts", exp_rows(&|r| r.receipts.keys().cloned().collect())),
            ("misbehaving_proofs", exp_rows(&|r| r.proof.iter().cloned().collect())),
        ] {
            if rows[table] != exp {
                v.push((format!("rows:{table}-differ:after-{kind}"), format!("{:?} vs model {exp:?}", rows[table])));
            }
        }
        let bodies: BTreeSet<String> = self.reference.bodies().iter().map(|l| hex::encode_upper([*l; 16])).collect();
        if rows["appointments"] != bodies {
            let orphan = rows["appointments"].difference(&bodies).next().is_some();
            v.push((
                format!("bodies:{}:after-{kind}", if orphan { "kept-although-unreferenced" } else { "deleted-although-referenced" }),
                format!("appointment bodies stored {:?}, referenced by some pending/invalid link {bodies:?}", rows["appointments"]),
            ));
        }
        v
    }

    fn fp(&self) -> u128 {
        let rows = raw_rows(&self.dir);
        let mem: BTreeMap<String, serde_json::Value> = self.client.towers.iter().map(|(k, s)| (k.to_string(), canon(serde_json::to_value(s).unwrap()))).collect();
        let regs: Vec<u32> = self.reference.towers.values().map(|t| t.registrations).collect();
        fingerprint(&[&format!("{rows:?}"), &format!("{mem:?}"), &format!("{regs:?}")])
    }
}

struct WModel;

impl Model for WModel {
    type Ev = WOp;
    fn name(&self) -> String {
        "C18".into()
    }
    fn run(&self, history: &[WOp]) -> StepResult<WOp> {
        let mut w = WWorld::new();
        let mut violations = Vec::new();
        for (i, op) in history.iter().enumerate() {
            match w.apply(op) {
                Ok(()) => {}
                Err(p) => {
                    if i + 1 == history.len() {
                        let msg: String = p.chars().take(100).collect();
                        violations.push((format!("panic:{msg}"), format!("{op:?} panicked: {p}")));
                    }
                    return StepResult { fingerprint: 0, enabled: vec![], violations, prune: true, outcome: "panic".into() };
                }
            }
        }
        if let Some(last) = history.last() {
            violations = w.check(last);
            violations.sort();
            violations.dedup_by(|a, b| a.0 == b.0);
        }
        let enabled = if violations.is_empty() { w.enabled() } else { vec![] };
        let outcome = format!("{:?}", raw_rows(&w.dir).iter().map(|(k, v)| (k.clone(), v.len())).collect::<Vec<_>>());
        StepResult { fingerprint: w.fp(), enabled, prune: !violations.is_empty(), violations, outcome }
    }
    fn describe(&self, history: &[WOp]) -> serde_json::Value {
        json!({"engine": "W", "ops": history})
    }
}

pub fn replay(v: &serde_json::Value) -> i32 {
    let h = &v["replay"]["history"];
    let ops: Vec<WOp> = serde_json::from_value(h["ops"].clone()).unwrap();
    let mut w = WWorld::new();
    let mut bad = 0;
    for op in ops.iter() {
        println!("{op:?}");
        if let Err(p) = w.apply(op) {
            println!("    PANIC {p}");
            return 1;
        }
        for (s, d) in w.check(op) {
            println!("    VIOL {s} :: {d}");
            bad += 1;
        }
        println!("    rows: {:?}", raw_rows(&w.dir));
    }
    (bad > 0) as i32
}

pub fn c18(tier: Tier) -> i32 {
    let run = Run::new("C18", "model_checking", tier);
    let depth = if tier == Tier::Quick { 5 } else { 7 };
    let s = bfs(&WModel, depth, Duration::from_secs(if tier == Tier::Quick { 45 } else { 600 }), &run);
    merge_stats(&run, &[("C18".to_owned(), s)]);
    let base = if std::path::Path::new("/dev/shm").is_dir() { PathBuf::from("/dev/shm") } else { std::env::temp_dir() };
    let _ = std::fs::remove_dir_all(base.join(format!("verif-wt-{}", std::process::id())));
    run.set("traces_validated_against_impl", json!(0));
    run.set("rule", json!("BFS over the real WTClient (+ its sqlite file) with operations {register, renew, stale receipt, receipt, pending, remove pending, invalid, pending->accepted, pending->invalid (in the retrier's order), misbehaving proof, abandon} x towers {1,2} x locators {1,2}, only call shapes the handlers can issue; deduplicated on (all raw rows, in-memory summaries); after every operation: memory = load_towers() = reference, gettowerinfo = reference, a fresh WTClient on the same directory reproduces it with the implied status, raw rows belong to registered towers only, appointment bodies present iff referenced"));
    run.assume("duplicate submissions of the same (tower, locator) record are excluded here (handler-level behaviour, see C05)");
    run.finish()
}
