//! C03: crash enumeration (engine T + crash points H1).
//!
//! For every history produced by a BFS over a tower alphabet, and for every step of it, the step is
//! re-run with the tower "killed" right before its k-th durable effect (sqlite write, transaction
//! commit, node RPC) for every k, and additionally killed while idle after the step. The tower is
//! then restarted from the same file, the client either gives up or re-sends the in-flight request,
//! the rest of the history is applied, the chain is caught up, and the outcome is compared with the
//! uninterrupted run of the same history (differential oracle).

use std::collections::BTreeMap;
use std::time::{Duration, Instant};

use serde_json::json;

use crate::explore::{bfs, merge_stats, par_map, Model};
use crate::report::{Run, Tier};
use crate::sim::{tx_label, Replacement};
use crate::spec::slots_for;
use crate::tmodel::{Alphabet, TowerModel};
use crate::tower::{DbView, TowerCfg};
use crate::world::{Blob, Ev, World};

/// What must survive: the tables, with the parts that legitimately depend on timing projected away.
#[derive(Clone, Debug, PartialEq, Eq)]
struct Semantic {
    users: BTreeMap<String, (u32, u32, u32)>,
    /// uuid -> (blob digest, tsd, start_block, signature digest, slots, owner)
    appts: BTreeMap<String, (u64, u32, u32, u64, u64, String)>,
    /// uuid -> (dispute, penalty, confirmed, height if confirmed)
    trackers: BTreeMap<String, (String, String, bool, u32)>,
    told: BTreeMap<u8, Option<(u32, u32)>>,
}

fn semantic(o: &Outcome) -> Semantic {
    let db = &o.final_db;
    Semantic {
        told: o.told.clone(),
        users: db.users.clone(),
        appts: db
            .appointments
            .iter()
            .map(|(k, a)| {
                (
                    k.clone(),
                    (crate::tower::fnv(&a.blob), a.to_self_delay, a.start_block, crate::tower::fnv(a.user_signature.as_bytes()), slots_for(a.blob.len()), a.user.clone()),
                )
            })
            .collect(),
        // An appointment counts as answered when the tower tracks it. (Until fix 3eaadf0 of handle_breach
        // "still watched while its penalty sits confirmed on the active chain" was admitted as well; it
        // is not what an uninterrupted run produces and the next re-submission of the appointment drops it.)
        trackers: db
            .appointments
            .keys()
            .filter_map(|k| match (db.trackers.get(k), o.penalty_on_chain.get(k).copied().flatten()) {
                (Some(t), Some(h)) => Some((k.clone(), (tx_label(&t.dispute), tx_label(&t.penalty), true, h))),
                (Some(t), None) => Some((k.clone(), (tx_label(&t.dispute), tx_label(&t.penalty), false, 0))),
                (None, _) => None,
            })
            .map(|(k, (_, _, c, h))| (k, ("answered".to_owned(), String::new(), c, h)))
            .collect(),
    }
}

#[derive(Clone, Debug, serde::Serialize, serde::Deserialize)]
pub struct CrashCase {
    pub cfg: TowerCfg,
    pub history: Vec<Ev>,
    /// index of the interrupted step
    pub step: usize,
    /// Some(k): killed right before the k-th effect of that step; None: killed idle after the step
    pub effect: Option<u64>,
    pub resend: bool,
    /// a block download fails in the same poll (call index relative to the step) before the crash
    pub failed_download: Option<u64>,
}

struct Outcome {
    /// after the interrupted poll: last_known_block on disk differs from the last block delivered
    lkb_ahead: bool,
    crashed: bool,
    site: String,
    boot_error: Option<String>,
    panic: Option<String>,
    final_db: DbView,
    rpc_sends: Vec<String>,
    /// what get_user answers at the end (memory)
    told: BTreeMap<u8, Option<(u32, u32)>>,
    /// uuid -> the appointment's penalty is confirmed on the active chain at the end
    penalty_on_chain: BTreeMap<String, Option<u32>>,
}

fn settle(w: &mut World) -> Option<String> {
    // catch up with the chain (two polls: the first may only disconnect after a failed download)
    for _ in 0..2 {
        let o = w.apply(&Ev::Poll);
        if let Some(p) = o.panic {
            return Some(p);
        }
    }
    None
}

#[derive(Clone, Debug)]
enum Action {
    Ev(Ev),
    CrashStep(Ev),
    Restart,
    Resend(Ev),
}

fn chain_only(ev: &Ev) -> bool {
    matches!(ev, Ev::Mine(_) | Ev::Reorg { .. } | Ev::External(_) | Ev::Evict(_))
}

/// pre ++ [interrupted step] ++ (chain events that happen while the tower is down) ++ [restart]
/// ++ [re-sent request] ++ rest
fn script(c: &CrashCase) -> Vec<Action> {
    let is_req_crash = c.effect.is_some() && matches!(c.history[c.step], Ev::Register(_) | Ev::Add { .. });
    let mut out: Vec<Action> = c.history[..c.step].iter().cloned().map(Action::Ev).collect();
    out.push(Action::CrashStep(c.history[c.step].clone()));
    // a partially applied request may legitimately cost slots; what follows would only show
    // consequences of that admissible loss
    let post: &[Ev] = if is_req_crash { &[] } else { &c.history[c.step + 1..] };
    let k = post.iter().take_while(|e| chain_only(e)).count();
    out.extend(post[..k].iter().cloned().map(Action::Ev));
    out.push(Action::Restart);
    if c.resend && matches!(c.history[c.step], Ev::Register(_) | Ev::Add { .. }) {
        out.push(Action::Resend(c.history[c.step].clone()));
    }
    out.extend(post[k..].iter().cloned().map(Action::Ev));
    out
}


fn penalty_on_chain(w: &World, db: &DbView) -> BTreeMap<String, Option<u32>> {
    let mut m = BTreeMap::new();
    let env = w.env.lock();
    for (uuid, a) in db.appointments.iter() {
        let k = (1..=3u8).find(|k| hex::encode(teos_common::appointment::Locator::new(crate::sim::txid_of(crate::sim::TxName::D(*k))).to_vec()) == a.locator);
        let conf = k.and_then(|k| teos_common::cryptography::decrypt(&a.blob, &crate::sim::txid_of(crate::sim::TxName::D(k))).ok()).and_then(|p| env.confirmation(&p.compute_txid()).map(|(_, h)| h));
        m.insert(uuid.clone(), conf);
    }
    m
}

fn told(w: &World) -> BTreeMap<u8, Option<(u32, u32)>> {
    // what the running tower says (memory), as opposed to what is on disk
    let mut m = BTreeMap::new();
    if w.dead || w.tower.is_none() {
        return m;
    }
    for u in 1..=2u8 {
        m.insert(u, w.api().get_user(&crate::tower::user_keys(u)).ok().map(|g| (g.available_slots, g.subscription_expiry)));
    }
    m
}

fn run_case(c: &CrashCase) -> Outcome {
    let mut w = World::new(c.cfg);
    w.env.lock().rpc_crash_points = true;
    w.boot().unwrap();
    let mut out = Outcome { lkb_ahead: false, crashed: false, site: String::new(), boot_error: None, panic: None, final_db: DbView::default(), rpc_sends: vec![], told: BTreeMap::new(), penalty_on_chain: BTreeMap::new() };
    for a in script(c) {
        match a {
            Action::CrashStep(ev) => {
                if let Some(f) = c.failed_download {
                    let mut env = w.env.lock();
                    let base = env.src_count;
                    env.src_fail = Some((base + f, base + f + 1));
                }
                teos_common::verif::arm(c.effect);
                let o = w.apply(&ev);
                teos_common::verif::arm(None);
                w.env.lock().src_fail = None;
                if c.failed_download.is_some() {
                    // last_known_block moved during this poll, but not to the last block the listeners got
                    let delivered = o.trace.iter().rev().find_map(|t| match t {
                        crate::world::Trace::Connect(h, _) => Some(*h),
                        _ => None,
                    });
                    let lkb = o.db_after.last_known_block;
                    out.lkb_ahead = lkb != o.db_before.last_known_block && lkb != delivered;
                }
                match (&o.panic, c.effect) {
                    (Some(p), Some(_)) if p.starts_with("<crash marker") => {
                        out.crashed = true;
                        out.site = p.clone();
                    }
                    (Some(p), _) => {
                        out.panic = Some(p.clone());
                        out.final_db = w.db_view();
                        return out;
                    }
                    (None, Some(_)) => {
                        // fewer than k effects in this step: nothing to do for this k
                        out.crashed = false;
                        out.final_db = w.db_view();
                        return out;
                    }
                    (None, None) => {
                        out.crashed = true;
                        out.site = "idle".into();
                    }
                }
                // the process is gone
                w.tower = None;
                w.dead = true;
            }
            Action::Restart => {
                let r = w.apply(&Ev::Restart);
                if let Some(e) = r.boot_error {
                    out.boot_error = Some(e);
                    out.final_db = w.db_view();
                    return out;
                }
            }
            Action::Ev(ev) | Action::Resend(ev) => {
                let o = w.apply(&ev);
                if let Some(p) = o.panic {
                    out.panic = Some(p);
                    out.final_db = w.db_view();
                    return out;
                }
            }
        }
    }
    out.panic = settle(&mut w);
    out.final_db = w.db_view();
    out.penalty_on_chain = penalty_on_chain(&w, &out.final_db);
    out.told = told(&w);
    out.rpc_sends = w
        .env
        .lock()
        .rpc_log
        .iter()
        .filter(|r| r.method == "sendrawtransaction")
        .map(|r| format!("{}:{}", r.txid.map(|t| tx_label(&t)).unwrap_or_default(), r.verdict))
        .collect();
    out
}

/// Uninterrupted runs a crashed run is compared with. A restart loses nothing durable but it does
/// catch up with the chain, so every reference polls at the place where the crashed run restarted.
///   Took:    the interrupted step took effect, no re-send
///   Lost:    an in-flight request left no trace, no re-send
///   Resent:  lost, then re-sent after the restart
///   Twice:   took effect, then re-sent after the restart
#[derive(Clone, Copy, Debug, PartialEq, Eq)]
enum RefKind {
    Took,
    Lost,
    Resent,
    Twice,
}

fn reference(c: &CrashCase, kind: RefKind) -> Outcome {
    let mut cc = c.clone();
    cc.resend = true;
    let mut evs: Vec<Ev> = Vec::new();
    for a in script(&cc) {
        match a {
            Action::Ev(e) => evs.push(e),
            Action::CrashStep(e) => {
                if matches!(kind, RefKind::Took | RefKind::Twice) {
                    evs.push(e);
                } else {
                    // the interrupted step left no trace: for a chain step only its poll is dropped
                    // (the blocks are delivered by the restart instead)
                    match e {
                        Ev::MineP(sel) => evs.push(Ev::Mine(sel)),
                        Ev::ReorgP { depth, how } => evs.push(Ev::Reorg { depth, how }),
                        Ev::Advance(n) | Ev::AdvanceBulk(n) => evs.extend((0..n).map(|_| Ev::Mine(crate::world::MineSel::Empty))),
                        _ => {}
                    }
                }
            }
            Action::Restart => evs.push(Ev::Poll),
            Action::Resend(e) => {
                if matches!(kind, RefKind::Resent | RefKind::Twice) {
                    evs.push(e);
                }
            }
        }
    }
    let mut w = World::new(c.cfg);
    w.boot().unwrap();
    let mut out = Outcome { lkb_ahead: false, crashed: false, site: String::new(), boot_error: None, panic: None, final_db: DbView::default(), rpc_sends: vec![], told: BTreeMap::new(), penalty_on_chain: BTreeMap::new() };
    for ev in evs.iter() {
        let o = w.apply(ev);
        if let Some(p) = o.panic {
            out.panic = Some(p);
            break;
        }
    }
    if out.panic.is_none() {
        out.panic = settle(&mut w);
    }
    out.final_db = w.db_view();
    out.penalty_on_chain = penalty_on_chain(&w, &out.final_db);
    out.told = told(&w);
    out
}

/// Compares the outcome of a crashed run with the uninterrupted one(s).
fn judge(c: &CrashCase, got: &Outcome, refs: &[(RefKind, Outcome)]) -> Option<(String, String)> {
    let ev = &c.history[c.step];
    let kind = crate::spec::ev_kind(ev);
    let site = got.site.split(' ').nth(2).unwrap_or(&got.site).to_owned();
    let site = if got.site == "idle" { "idle".to_owned() } else { site };
    if let Some(e) = &got.boot_error {
        return Some((format!("restart-fails:after-{kind}@{site}"), format!("restart after crash ({}) failed: {e}", got.site)));
    }
    if let Some(p) = &got.panic {
        let msg: String = p.chars().take(80).collect();
        return Some((format!("panic-after-restart:{msg}"), format!("crash at {} during {ev:?}, then: {p}", got.site)));
    }
    if got.final_db.fk_violations > 0 {
        return Some(("dangling-records".into(), format!("{} foreign key violations after crash at {}", got.final_db.fk_violations, got.site)));
    }
    if got.final_db.n_keys != 1 {
        return Some(("tower-key-changed".into(), format!("{} keys stored", got.final_db.n_keys)));
    }
    if got.lkb_ahead {
        return Some((
            "lkb-ahead-of-listeners:crash-after-partially-failed-poll".into(),
            format!(
                "history {:?}: the poll at step {} had a failed block download; last_known_block on disk is ahead of the last block delivered to the listeners, so a restart skips the blocks in between",
                c.history.iter().map(|e| format!("{e:?}")).collect::<Vec<_>>(),
                c.step
            ),
        ));
    }
    for (uuid, t) in got.final_db.trackers.iter() {
        let truth = got.penalty_on_chain.get(uuid).copied().flatten();
        if t.confirmed && truth != Some(t.height) {
            return Some((
                "tracker-confirmed-in-a-block-not-on-the-active-chain-after-restart".into(),
                format!(
                    "history {:?}; killed at {} during step {}; after restart and catch-up the tracker records {} as confirmed at {} but the active chain has it at {truth:?} (the block was replaced while the tower was down and is above the stored last known block)",
                    c.history.iter().map(|e| format!("{e:?}")).collect::<Vec<_>>(),
                    got.site,
                    c.step,
                    tx_label(&t.penalty),
                    t.height
                ),
            ));
        }
    }
    let g = semantic(got);
    let is_request = matches!(ev, Ev::Register(_) | Ev::Add { .. });
    let admissible: Vec<RefKind> = match (is_request, c.resend) {
        (false, _) => vec![RefKind::Took, RefKind::Lost],
        (true, false) => vec![RefKind::Took, RefKind::Lost],
        (true, true) => vec![RefKind::Resent, RefKind::Twice, RefKind::Lost],
    };
    for (k, r) in refs.iter().filter(|(k, _)| admissible.contains(k)) {
        if r.panic.is_some() {
            // the uninterrupted run itself does not complete: nothing to compare with
            return None;
        }
        let s = semantic(r);
        if g == s {
            return None;
        }
        // An in-flight submission may have cost the user at most its own slots (charged, not
        // stored), never a gain; nothing else may differ.
        if let Ev::Add { user, disp, blob, .. } = ev {
            if matches!(k, RefKind::Lost | RefKind::Resent) || (*k == RefKind::Lost && c.resend) {
                let slots = slots_for(crate::world::make_blob(*disp, *blob).len()) as i64;
                let uid = crate::tower::user_keys(*user).hex();
                let mut g2 = g.clone();
                let mut s2 = s.clone();
                // the in-flight appointment may have been stored without ever being handed to the
                // responder (no receipt was returned for it; it costs its own slots)
                let loc = teos_common::appointment::Locator::new(crate::sim::txid_of(crate::sim::TxName::D(*disp)));
                let uuid = crate::tower::uuid_hex(&loc, &crate::tower::user_keys(*user).id());
                if *k == RefKind::Lost && !s2.appts.contains_key(&uuid) && !g2.trackers.contains_key(&uuid) {
                    g2.appts.remove(&uuid);
                }
                let ga = g2.users.get(&uid).map(|u| u.0 as i64);
                let sa = s2.users.get(&uid).map(|u| u.0 as i64);
                if let (Some(ga), Some(sa)) = (ga, sa) {
                    if ga <= sa && sa - ga <= slots {
                        g2.users.get_mut(&uid).unwrap().0 = 0;
                        s2.users.get_mut(&uid).unwrap().0 = 0;
                        g2.told.clear();
                        s2.told.clear();
                        if g2 == s2 {
                            return None;
                        }
                    }
                }
            }
        }
    }
    let f = semantic(&refs.iter().find(|(k, _)| admissible.contains(k)).unwrap().1);
    // Describe the difference.
    let f = &f;
    let gained = g.users.iter().any(|(k, v)| {
        // available + held exceeds what the uninterrupted run gives this user
        let held = |sem: &Semantic, uid: &str| -> i64 { sem.appts.values().filter(|a| a.5 == uid).map(|a| a.4 as i64).sum() };
        f.users.get(k).map_or(false, |fv| (v.0 as i64 + held(&g, k)) > (fv.0 as i64 + held(f, k)))
    });
    let primary = if gained {
        "slots-gained"
    } else if f.trackers.keys().any(|k| !g.trackers.contains_key(k)) {
        "breach-not-answered-after-restart"
    } else if f.appts.keys().any(|k| !g.appts.contains_key(k)) {
        "appointment-lost"
    } else {
        "state-differs"
    };
    Some((
        format!("crash-in-{kind}@{site}{}{}:{primary}", if c.resend { ":resent" } else { "" }, if c.failed_download.is_some() { ":failed-download" } else { "" }),
        format!(
            "history {:?}; killed at {} during step {} ({ev:?}); after restart and catch-up: users {:?} appts {} trackers {:?}; uninterrupted: users {:?} appts {} trackers {:?}",
            c.history.iter().map(|e| format!("{e:?}")).collect::<Vec<_>>(),
            got.site,
            c.step,
            g.users.values().collect::<Vec<_>>(),
            g.appts.len(),
            g.trackers.values().collect::<Vec<_>>(),
            f.users.values().collect::<Vec<_>>(),
            f.appts.len(),
            f.trackers.values().collect::<Vec<_>>()
        ),
    ))
}

/// Collects the histories (leaves and inner nodes) of a BFS over the crash alphabet.
struct Collector {
    inner: TowerModel,
    seen: std::sync::Mutex<Vec<Vec<Ev>>>,
}

impl Model for Collector {
    type Ev = Ev;
    fn name(&self) -> String {
        self.inner.name()
    }
    fn run(&self, history: &[Ev]) -> crate::explore::StepResult<Ev> {
        let r = self.inner.run(history);
        if !r.prune {
            self.seen.lock().unwrap().push(history.to_vec());
        }
        r
    }
    fn describe(&self, history: &[Ev]) -> serde_json::Value {
        self.inner.describe(history)
    }
}

pub fn replay(v: &serde_json::Value) -> i32 {
    let c: CrashCase = serde_json::from_value(v["replay"]["case"].clone()).unwrap();
    let refs: Vec<(RefKind, Outcome)> = [RefKind::Took, RefKind::Lost, RefKind::Resent, RefKind::Twice]
        .iter()
        .map(|k| (*k, reference(&c, *k)))
        .collect();
    let got = run_case(&c);
    println!("case: {c:?}");
    println!("crashed: {} at {}", got.crashed, got.site);
    println!("after crash+restart+catch-up: {}", got.final_db.canonical());
    for (k, r) in refs.iter() {
        println!("reference {k:?}: {}", r.final_db.canonical());
    }
    println!("sends (crashed run): {:?}", got.rpc_sends);
    match judge(&c, &got, &refs) {
        Some((s, d)) => {
            println!("VIOL {s} :: {d}");
            1
        }
        None => 0,
    }
}

// ---- files written at start-up outside the database (mTLS identities) -------------------------------

/// What the kill leaves of the file that was about to be written.
#[derive(Clone, Copy, Debug, PartialEq, Eq, serde::Serialize, serde::Deserialize)]
pub enum Torn {
    /// killed before the file was opened
    NotTouched,
    /// killed between `open(O_CREAT|O_TRUNC)` and `write` (what `std::fs::write` does): the file is there, empty
    Empty,
}

/// One crash while the identities are (re)generated: the n-th file write, and what is left of it.
pub type BootCrash = (u64, Torn);

const TLS_FILES: [&str; 6] = ["ca-key.pem", "ca.pem", "server-key.pem", "server.pem", "client-key.pem", "client.pem"];

/// The part of teosd's start-up that touches these files (main.rs: tls_init, then the private API's TLS setup).
fn tls_boot(dir: &std::path::Path) -> Result<(), String> {
    let (identity, ca) = teos::tls::tls_init(dir).map_err(|e| format!("tls_init failed: {e:?}"))?;
    let tls = tonic::transport::ServerTlsConfig::new().identity(identity).client_ca_root(tonic::transport::Certificate::from_pem(ca));
    tonic::transport::Server::builder().tls_config(tls).map(|_| ()).map_err(|e| format!("the private API cannot be set up with the stored identity: {e:?}"))?;
    // the identities left on disk must be usable (the operator's CLI reads client*.pem and ca.pem): every key
    // and certificate parses and each certificate is for its key
    for id in ["ca", "server", "client"] {
        let key = std::fs::read_to_string(dir.join(format!("{id}-key.pem"))).map_err(|e| format!("{id}-key.pem: {e}"))?;
        let cert = std::fs::read(dir.join(format!("{id}.pem"))).map_err(|e| format!("{id}.pem: {e}"))?;
        let key = rcgen::KeyPair::from_pem(&key).map_err(|e| format!("{id}-key.pem is not a key: {e:?}"))?;
        let (_, pem) = x509_parser::pem::parse_x509_pem(&cert).map_err(|e| format!("{id}.pem is not a certificate: {e:?}"))?;
        let x = pem.parse_x509().map_err(|e| format!("{id}.pem is not a certificate: {e:?}"))?;
        if x.public_key().raw != key.public_key_der().as_slice() {
            return Err(format!("{id}.pem does not certify {id}-key.pem"));
        }
    }
    Ok(())
}

fn tls_dir_state(dir: &std::path::Path) -> String {
    let mut v = Vec::new();
    for f in TLS_FILES {
        match std::fs::read(dir.join(f)) {
            Err(_) => {}
            Ok(b) if b.is_empty() => v.push(format!("{f}-empty")),
            Ok(_) => {}
        }
    }
    if v.is_empty() {
        "no-empty-file".into()
    } else {
        v.join("+")
    }
}

fn tls_files(dir: &std::path::Path) -> Vec<(String, Vec<u8>)> {
    TLS_FILES.iter().map(|f| (f.to_string(), std::fs::read(dir.join(f)).unwrap_or_default())).collect()
}

/// Runs the start-ups of `crashes` (each killed at its point), then two uninterrupted ones.
/// Ok(number of crash points of a full first boot) or Err(signature, detail).
fn boot_files_case(crashes: &[BootCrash]) -> Result<u64, (String, String)> {
    let scratch = crate::tower::ScratchDb::new();
    let dir = scratch.path.parent().unwrap().join("tls");
    std::fs::create_dir_all(&dir).unwrap();
    let mut last_site = String::new();
    for (n, torn) in crashes {
        teos_common::verif::arm(Some(*n));
        let r = std::panic::catch_unwind(std::panic::AssertUnwindSafe(|| tls_boot(&dir)));
        teos_common::verif::arm(None);
        match r {
            Err(p) => {
                let m = p.downcast_ref::<teos_common::verif::CrashMarker>().ok_or_else(|| ("boot-files:panic".to_owned(), crate::world::panic_message(&p)))?;
                last_site = format!("{}#{}", m.site, n);
                if *torn == Torn::Empty && m.site.contains("write") {
                    // the hook names the file that was about to be created/truncated and written
                    let f = teos_common::verif::last_file().expect("crash point of a file write without a file");
                    assert!(f.starts_with(&dir));
                    std::fs::write(f, b"").unwrap();
                }
            }
            Ok(_) => {
                // fewer crash points than n: nothing was killed
                return Ok(teos_common::verif::count());
            }
        }
    }
    // restart: must come up, and come up again with the very same identities
    let left = tls_dir_state(&dir);
    let _ = &last_site;
    let mut out = Ok(0);
    match std::panic::catch_unwind(std::panic::AssertUnwindSafe(|| tls_boot(&dir))) {
        Ok(Ok(())) => {
            let points = teos_common::verif::count();
            let first = tls_files(&dir);
            match std::panic::catch_unwind(std::panic::AssertUnwindSafe(|| tls_boot(&dir))) {
                Ok(Ok(())) => {
                    if tls_files(&dir) != first {
                        out = Err((format!("boot-files:identities-change-at-every-restart:crash-left:{left}"), format!("crashes {crashes:?}")));
                    } else {
                        out = Ok(points);
                    }
                }
                Ok(Err(e)) => out = Err((format!("boot-files:second-restart-fails:crash-left:{left}"), format!("crashes {crashes:?}: {e}"))),
                Err(p) => out = Err(("boot-files:panic".to_owned(), crate::world::panic_message(&p))),
            }
        }
        Ok(Err(e)) => {
            out = Err((format!("boot-files:restart-fails:crash-left:{left}"), format!("crashes {crashes:?} (last at {last_site}): {e}")));
        }
        Err(p) => out = Err(("boot-files:panic".to_owned(), crate::world::panic_message(&p))),
    }
    out
}

pub fn replay_boot_files(v: &serde_json::Value) -> i32 {
    let crashes: Vec<BootCrash> = serde_json::from_value(v["replay"]["crashes"].clone()).unwrap();
    match boot_files_case(&crashes) {
        Ok(n) => {
            println!("start-up after {crashes:?}: fine ({n} file writes)");
            0
        }
        Err((s, d)) => {
            println!("VIOL {s} :: {d}");
            1
        }
    }
}

/// Every crash point of the first start-up x what is left of the file, then every crash point of the
/// start-up after that x the same (two nested crashes), then two clean start-ups.
fn boot_files(run: &Run) -> (u64, u64) {
    // crash points of a first start (every file write and every move into place)
    let full = {
        let scratch = crate::tower::ScratchDb::new();
        let dir = scratch.path.parent().unwrap().join("tls");
        std::fs::create_dir_all(&dir).unwrap();
        teos_common::verif::arm(None);
        let _ = tls_boot(&dir);
        teos_common::verif::count()
    };
    let mut cases = 0u64;
    let mut killed = 0u64;
    let mut todo: Vec<Vec<BootCrash>> = Vec::new();
    for n in 0..full {
        for t in [Torn::NotTouched, Torn::Empty] {
            todo.push(vec![(n, t)]);
            for m in 0..full {
                for t2 in [Torn::NotTouched, Torn::Empty] {
                    todo.push(vec![(n, t), (m, t2)]);
                }
            }
        }
    }
    let (res, _) = par_map(&todo, None, |_, c| boot_files_case(c));
    for (c, r) in todo.iter().zip(res.into_iter()) {
        cases += 1;
        match r {
            Some(Ok(_)) => killed += 1,
            Some(Err((sig, detail))) => {
                killed += 1;
                run.violation(&sig, detail, json!({"engine": "boot-files", "crashes": c}), c.len());
            }
            None => {}
        }
    }
    run.set("boot_file_writes_of_a_first_start", json!(full));
    (cases, killed)
}

/// The very first start killed at each of its durable effects (creation of the tables, of the tower key, the
/// first record of the chain position ...), then started again on what is left: it must come up, keep the
/// tower id it comes up with, and work.
fn first_start_crashes(run: &Run) -> u64 {
    let cfg = TowerCfg { slots: 3, duration: 400, grace: 6, txindex: false };
    let mut cases = 0;
    for n in 0..12u64 {
        let mut w = World::new(cfg);
        teos_common::verif::arm(Some(n));
        let first = w.boot();
        let reached = teos_common::verif::count();
        teos_common::verif::arm(None);
        if first.is_ok() {
            // fewer than n durable effects in a first start: done
            let _ = reached;
            break;
        }
        cases += 1;
        let replay = json!({"engine": "first-start", "killed_at_effect": n});
        match w.boot() {
            Err(e) => {
                run.violation(&format!("first-start:restart-fails-after-a-kill-at-effect-{n}"), format!("first start killed at its durable effect #{n} ({first:?}); the next start fails: {e}"), replay, 1);
                continue;
            }
            Ok(()) => {}
        }
        let id1 = w.tower.as_ref().map(|t| t.tower_id);
        for ev in [Ev::Register(1), Ev::Add { user: 1, disp: 1, blob: crate::world::Blob::Valid, tsd: 42 }, Ev::MineP(crate::world::MineSel::Txs(vec![crate::sim::TxName::D(1)])), Ev::Restart] {
            let o = w.apply(&ev);
            if let Some(p) = o.panic.or(o.boot_error) {
                run.violation(&format!("first-start:not-working-after-a-kill-at-effect-{n}"), format!("after the restart, {ev:?}: {p}"), replay.clone(), 1);
                break;
            }
        }
        if w.tower.as_ref().map(|t| t.tower_id) != id1 {
            run.violation(&format!("first-start:tower-id-changes-after-a-kill-at-effect-{n}"), String::new(), replay, 1);
        }
        if w.db_view().trackers.len() != 1 {
            run.violation(&format!("first-start:breach-not-answered-after-a-kill-at-effect-{n}"), String::new(), json!({"engine": "first-start", "killed_at_effect": n}), 1);
        }
    }
    cases
}

pub fn replay_first_start(_v: &serde_json::Value) -> i32 {
    let run = Run::new("C03", "fault_enumeration", Tier::Quick);
    first_start_crashes(&run);
    run.finish()
}

pub fn c03(tier: Tier) -> i32 {
    let run = Run::new("C03", "fault_enumeration", tier);
    let cfg = TowerCfg { slots: 3, duration: 400, grace: 6, txindex: false };
    let mut a = Alphabet::basic();
    a.users = vec![1];
    a.disps = vec![1];
    a.blobs = vec![(Blob::Valid, false), (Blob::Large, false)];
    a.max_registers_per_user = 1;
    a.max_adds = 2;
    a.split_poll = true;
    a.mine_empty = true;
    a.mine_mempool = true;
    a.mine_dispute = true;
    a.reorgs = vec![(1, Replacement::Same), (1, Replacement::Unconfirm)];
    a.max_deviations = 1;
    let depth = if tier == Tier::Quick { 4 } else { 6 };
    let budget = Duration::from_secs(std::env::var("VERIF_BUDGET_S").ok().and_then(|v| v.parse().ok()).unwrap_or(if tier == Tier::Quick { 50 } else { 900 }));
    let started = Instant::now();
    let mut histories: Vec<Vec<Ev>> = Vec::new();
    let mut all_stats = Vec::new();
    for (label, seed) in [("S0", vec![]), ("S1", crate::checks_t::seed("S1")), ("S4", crate::checks_t::seed("S4"))] {
        let m = Collector {
            inner: TowerModel { label: format!("C03/{label}"), cfg, seed: seed.clone(), alphabet: a.clone(), props: vec!["C03"], probe: false, forgery: None },
            seen: std::sync::Mutex::new(Vec::new()),
        };
        let d = if label == "S0" { depth } else { depth - 1 };
        let s = bfs(&m, d, budget / 6, &run);
        all_stats.push((m.name(), s));
        for h in m.seen.into_inner().unwrap() {
            let mut full = seed.clone();
            full.extend(h);
            histories.push(full);
        }
    }
    merge_stats(&run, &all_stats);
    histories.sort();
    histories.dedup();
    let mut histories: Vec<(TowerCfg, Vec<Ev>)> = histories.into_iter().map(|h| (cfg, h)).collect();
    // subscriptions that expire and are purged within the history (the purge is two durable effects of its own)
    {
        let short = TowerCfg { slots: 3, duration: 1, grace: 1, txindex: false };
        let add = |u, k| Ev::Add { user: u, disp: k, blob: crate::world::Blob::Valid, tsd: 42 };
        let e = || Ev::MineP(crate::world::MineSel::Empty);
        histories.push((short, vec![Ev::Register(1), add(1, 1), e(), e(), e(), Ev::Register(1)]));
        histories.push((short, vec![Ev::Register(1), Ev::Register(2), add(1, 1), e(), Ev::Register(2), e(), e(), e()]));
        histories.push((short, vec![Ev::Register(1), add(1, 1), Ev::MineP(crate::world::MineSel::Txs(vec![crate::sim::TxName::D(1)])), e(), e(), e()]));
        // ... and one that is due for removal at the very height the tower restarts from
        let zero = TowerCfg { slots: 3, duration: 0, grace: 0, txindex: false };
        histories.push((zero, vec![Ev::Register(1), Ev::Register(2), e(), Ev::Register(1), e(), e()]));
    }
    // penalties the node refuses and blobs that do not decrypt (the appointment is dropped: stored, judged, deleted are
    // separate durable effects), on the block path and on the request path, alone and next to a good one
    {
        let addb = |u, k, b| Ev::Add { user: u, disp: k, blob: b, tsd: 42 };
        let e = || Ev::MineP(crate::world::MineSel::Empty);
        let d1 = || Ev::MineP(crate::world::MineSel::Txs(vec![crate::sim::TxName::D(1)]));
        for bad in [Blob::Bad, Blob::Raw(40)] {
            histories.push((cfg, vec![Ev::Register(1), addb(1, 1, bad), d1(), e()]));
            histories.push((cfg, vec![Ev::Register(1), d1(), addb(1, 1, bad), e(), addb(1, 1, Blob::Valid)]));
            histories.push((cfg, vec![Ev::Register(1), Ev::Register(2), addb(1, 1, Blob::Valid), addb(2, 1, bad), d1(), e()]));
        }
    }
    // Advance(100) completion histories (refund transaction) are added explicitly.
    histories.push((cfg, {
        let mut h = crate::checks_t::seed("S4");
        h.push(Ev::AdvanceBulk(98));
        h.push(Ev::MineP(crate::world::MineSel::Empty));
        h.push(Ev::MineP(crate::world::MineSel::Empty));
        h
    }));
    // ... and two trackers of one user completing in the same block (one refund transaction for both)
    histories.push((cfg, {
        // (seed S8 with its 97 single-block polls as one bulk poll: a macro event is not cut in the middle)
        let mut h: Vec<Ev> = crate::checks_t::seed("S8").into_iter().map(|e| if let Ev::Advance(n) = e { Ev::AdvanceBulk(n) } else { e }).collect();
        h.push(Ev::MineP(crate::world::MineSel::Empty));
        h.push(Ev::MineP(crate::world::MineSel::Empty));
        h.push(Ev::MineP(crate::world::MineSel::Empty));
        h.push(Ev::MineP(crate::world::MineSel::Empty));
        h
    }));
    // Build the crash cases: every step of every history, every effect, idle; both continuations.
    let deadline = started + budget;
    let results = par_map(&histories, Some(deadline), |_, (cfg, h)| {
        let cfg = *cfg;
        let mut viols: Vec<(String, String, CrashCase)> = Vec::new();
        let mut cases = 0u64;
        let mut points = 0u64;
        for step in 0..h.len() {
            let is_req = matches!(h[step], Ev::Register(_) | Ev::Add { .. });
            let touches_tower = !matches!(h[step], Ev::Mine(_) | Ev::Reorg { .. } | Ev::External(_) | Ev::Evict(_));
            let kinds: Vec<RefKind> = if is_req { vec![RefKind::Took, RefKind::Lost, RefKind::Resent, RefKind::Twice] } else { vec![RefKind::Took, RefKind::Lost] };
            let mk = |effect: Option<u64>| CrashCase { cfg, history: h.clone(), step, effect, resend: false, failed_download: None };
            let refs_full: Vec<(RefKind, Outcome)> = kinds.iter().map(|k| (*k, reference(&mk(None), *k))).collect();
            let refs_trunc: Vec<(RefKind, Outcome)> =
                if is_req { kinds.iter().map(|k| (*k, reference(&mk(Some(0)), *k))).collect() } else { vec![] };
            let mut effects: Vec<Option<u64>> = vec![None];
            if touches_tower {
                effects.extend((0..64).map(Some));
            }
            for effect in effects {
                let mut stop = false;
                for resend in if is_req { vec![false, true] } else { vec![false] } {
                    let c = CrashCase { cfg, history: h.clone(), step, effect, resend, failed_download: None };
                    let got = run_case(&c);
                    if effect.is_some() && !got.crashed && got.panic.is_none() {
                        stop = true;
                        break;
                    }
                    cases += 1;
                    if !resend {
                        points += 1;
                    }
                    let refs = if is_req && effect.is_some() { &refs_trunc } else { &refs_full };
                    if let Some((s, d)) = judge(&c, &got, refs) {
                        viols.push((s, d, c));
                    }
                }
                if stop {
                    break;
                }
            }
            // crash combined with a failed block download in the same poll
            if matches!(h[step], Ev::Poll) {
                for f in 0..6u64 {
                    let c = CrashCase { cfg, history: h.clone(), step, effect: None, resend: false, failed_download: Some(f) };
                    let got = run_case(&c);
                    cases += 1;
                    if let Some((s, d)) = judge(&c, &got, &refs_full) {
                        viols.push((s, d, c));
                    }
                }
            }
        }
        (cases, points, viols)
    });
    let (res, timed_out) = results;
    let mut cases = 0u64;
    let mut points = 0u64;
    let mut covered = 0u64;
    for ((_, h), r) in histories.iter().zip(res.into_iter()) {
        if let Some((c, p, v)) = r {
            covered += 1;
            cases += c;
            points += p;
            for (sig, detail, case) in v {
                run.violation(&sig, detail, json!({"engine": "crash", "case": case}), case.history.len() * 100 + case.step);
            }
            if covered % 211 == 1 {
                run.sample(json!({"history": h.iter().map(|e| format!("{e:?}")).collect::<Vec<_>>(), "crash_cases": c}));
            }
        }
    }
    // what a restarted tower rebuilds from the node (main.rs, which the in-process wiring only mirrors):
    // the restart histories of the conformance set against the real teosd
    if !crate::conform::teosd_binary().exists() {
        eprintln!("MACHINERY-ERROR: {} is missing (./check builds it)", crate::conform::teosd_binary().display());
        return 2;
    }
    let (ok, bad) = crate::conform::run_restarts();
    run.set("traces_validated_against_impl", json!(ok));
    for (name, e) in bad {
        run.violation(
            &format!("conformance:restarted-teosd-differs-from-in-process-wiring:{name}"),
            format!("the real teosd binary and the harness's mirror of main.rs disagree: {e}"),
            json!({"engine": "conform", "trace": name}),
            1,
        );
    }
    let first_start_cases = first_start_crashes(&run);
    run.set("first_start_crash_cases", json!(first_start_cases));
    let (boot_cases, _) = boot_files(&run);
    run.set("boot_file_crash_cases", json!(boot_cases));
    run.set("evaluations", json!(cases + boot_cases));
    run.set("distinct_nontrivial", json!(points));
    run.set("histories", json!(histories.len()));
    run.set("histories_fully_crash_enumerated", json!(covered));
    if timed_out {
        run.set("exhaustive", json!(false));
        run.set("capped", json!("wall budget hit during crash enumeration; histories_fully_crash_enumerated < histories"));
    }
    run.set("rule", json!("histories = all states' representative histories of a BFS (register, add plain/2-slot/replace/triggered, mine dispute/mempool/empty, split polls, 1-block reorgs) from seeds S0,S1,S4 plus a completion history; for every step of every history: kill right before each durable effect (sqlite write, transaction commit, node RPC: crash points H1) and while idle after the step; restart on the same file; for requests both 'client gives up' and 'client re-sends'; apply the rest, catch up; compare with the uninterrupted run (tables equal; an in-flight request may be lost or cost at most its own slots, never a gain). Polls are additionally combined with one failed block download at each of the first 6 block-source calls. evaluations = executed crash cases, distinct_nontrivial = distinct (history, step, crash point) triples in which the process was actually killed"));
    run.assume("a kill between two durable effects is equivalent to a kill right before the later one (in-memory state is discarded)");
    run.assume("sqlite statement/transaction atomicity (no torn pages)");
    run.finish()
}
