//! The real tower, wired exactly as `teos/src/main.rs` wires it, over the simulated environment.

use std::collections::BTreeMap;
use std::future::Future;
use std::path::PathBuf;
use std::pin::Pin;
use std::sync::atomic::{AtomicU64, Ordering};
use std::sync::Arc;
use std::task::{Context, Poll as TaskPoll, RawWaker, RawWakerVTable, Waker};

use bitcoin::hashes::{ripemd160, Hash};
use bitcoin::network::Network;
use bitcoin::secp256k1::{PublicKey, Secp256k1, SecretKey};
use bitcoin::{BlockHash, Transaction, Txid};
use bitcoincore_rpc::jsonrpc;
use lightning_block_sync::init::validate_best_block_header;
use lightning_block_sync::poll::{ChainPoller, Poll, Validate, ValidatedBlock, ValidatedBlockHeader};
use lightning_block_sync::{BlockSource, BlockSourceError, SpvClient, UnboundedCache};
use tonic::Request;

use teos::api::internal::InternalAPI;
use teos::carrier::Carrier;
use teos::chain_monitor::ChainMonitor;
use teos::dbm::DBM;
use teos::gatekeeper::Gatekeeper;
use teos::protos as msgs;
use teos::protos::private_tower_services_server::PrivateTowerServices;
use teos::protos::public_tower_services_server::PublicTowerServices;
use teos::responder::Responder;
use teos::verif_sync::{Condvar, Mutex};
use teos::watcher::Watcher;
use teos_common::appointment::{Appointment, Locator};
use teos_common::constants::IRREVOCABLY_RESOLVED;
use teos_common::cryptography;
use teos_common::protos as common_msgs;
use teos_common::{TowerId, UserId};

use crate::sim::{Env, SimSource, SimTransport};

// ---- tiny executor ---------------------------------------------------------------------------

fn noop_waker() -> Waker {
    fn clone(_: *const ()) -> RawWaker {
        RawWaker::new(std::ptr::null(), &VTABLE)
    }
    fn noop(_: *const ()) {}
    static VTABLE: RawWakerVTable = RawWakerVTable::new(clone, noop, noop, noop);
    unsafe { Waker::from_raw(RawWaker::new(std::ptr::null(), &VTABLE)) }
}

/// Drives a future that never has to wait for anything external (all I/O is in-process).
pub fn block_on<F: Future>(f: F) -> F::Output {
    let mut f = Box::pin(f);
    let waker = noop_waker();
    let mut cx = Context::from_waker(&waker);
    for _ in 0..1000 {
        if let TaskPoll::Ready(v) = Pin::as_mut(&mut f).poll(&mut cx) {
            return v;
        }
    }
    panic!("harness: future stayed pending (uncontrolled asynchrony)");
}

// ---- keys ------------------------------------------------------------------------------------

#[derive(Clone)]
pub struct Keys {
    pub sk: SecretKey,
    pub pk: PublicKey,
}

impl Keys {
    pub fn from_byte(b: u8) -> Self {
        let sk = SecretKey::from_slice(&[b; 32]).unwrap();
        let pk = PublicKey::from_secret_key(&Secp256k1::new(), &sk);
        Keys { sk, pk }
    }
    pub fn id(&self) -> UserId {
        UserId(self.pk)
    }
    pub fn hex(&self) -> String {
        hex::encode(self.pk.serialize())
    }
    pub fn sign(&self, msg: &[u8]) -> String {
        cryptography::sign(msg, &self.sk)
    }
}

pub fn tower_keys() -> Keys {
    Keys::from_byte(0xab)
}

/// U1, U2 are users; U3 is a key that never registers.
pub fn user_keys(u: u8) -> Keys {
    if u == 2 {
        // U2's secret key is the negation of U1's: two different users (different compressed public keys) that share
        // the x coordinate - anything that identifies a user by less than the whole key confuses exactly these two
        let sk = Keys::from_byte(0xa1).sk.negate();
        let pk = PublicKey::from_secret_key(&Secp256k1::new(), &sk);
        return Keys { sk, pk };
    }
    Keys::from_byte(match u {
        1 => 0xa1,
        3 => 0xc3,
        _ => 0xd4,
    })
}

pub fn uuid_hex(locator: &Locator, user: &UserId) -> String {
    let mut d = locator.to_vec();
    d.extend(user.0.serialize());
    hex::encode(ripemd160::Hash::hash(&d).to_byte_array())
}

// ---- configuration ---------------------------------------------------------------------------

#[derive(Clone, Copy, Debug, PartialEq, Eq, Hash, serde::Serialize, serde::Deserialize)]
pub struct TowerCfg {
    pub slots: u32,
    pub duration: u32,
    pub grace: u32,
    pub txindex: bool,
}

impl Default for TowerCfg {
    fn default() -> Self {
        TowerCfg {
            slots: 3,
            duration: 400,
            grace: 6,
            txindex: false,
        }
    }
}

// ---- API errors ------------------------------------------------------------------------------

#[derive(Clone, Debug, PartialEq, Eq)]
pub struct ApiErr {
    pub code: tonic::Code,
    pub msg: String,
}

impl From<tonic::Status> for ApiErr {
    fn from(s: tonic::Status) -> Self {
        ApiErr {
            code: s.code(),
            msg: s.message().to_owned(),
        }
    }
}

// ---- the tower -------------------------------------------------------------------------------

type Listeners = crate::world::RecordingListener<(Arc<Gatekeeper>, Arc<(Arc<Watcher>, Arc<Responder>)>)>;
type Poller = ChainPoller<Box<SimSource>, SimSource>;
pub type Reachable = Arc<(Mutex<bool>, Condvar)>;

pub struct Monitor {
    inner: Option<ChainMonitor<'static, Poller, UnboundedCache, Arc<Listeners>>>,
    cache: *mut UnboundedCache,
}

unsafe impl Send for Monitor {}

impl Monitor {
    pub fn poll(&mut self) {
        block_on(self.inner.as_mut().unwrap().poll_best_tip());
    }
}

impl Drop for Monitor {
    fn drop(&mut self) {
        self.inner = None;
        unsafe {
            drop(Box::from_raw(self.cache));
        }
    }
}

pub struct Tower {
    pub monitor: Option<Monitor>,
    pub gatekeeper: Arc<Gatekeeper>,
    pub watcher: Arc<Watcher>,
    pub responder: Arc<Responder>,
    pub api: Arc<InternalAPI>,
    pub reachable: Reachable,
    pub dbm: Arc<Mutex<DBM>>,
    pub tower_id: TowerId,
    pub boot_tip_height: u32,
}

#[derive(Debug)]
pub enum BootError {
    NotEnoughBlocks,
    Source(String),
}

async fn get_last_n_blocks(
    poller: &mut Poller,
    mut last_known_block: ValidatedBlockHeader,
    n: usize,
) -> Result<Vec<ValidatedBlock>, BlockSourceError> {
    // Mirror of `get_last_n_blocks` in teos/src/main.rs
    let mut last_n_blocks = Vec::with_capacity(n);
    for _ in 0..n {
        let block = poller.fetch_block(&last_known_block).await?;
        last_known_block = poller.look_up_previous_header(&last_known_block).await?;
        last_n_blocks.push(block);
    }
    Ok(last_n_blocks)
}

impl Tower {
    /// Mirror of the bootstrap in `teos/src/main.rs` (from opening the database to the first
    /// `poll_best_tip` and the construction of the internal API).
    pub fn boot(env: &Env, db_path: &PathBuf, cfg: &TowerCfg) -> Result<Tower, BootError> {
        Self::boot_with_log(env, db_path, cfg, Arc::new(std::sync::Mutex::new(crate::world::EventLog::default())))
    }

    pub fn boot_with_log(
        env: &Env,
        db_path: &PathBuf,
        cfg: &TowerCfg,
        log: Arc<std::sync::Mutex<crate::world::EventLog>>,
    ) -> Result<Tower, BootError> {
        let dbm = Arc::new(Mutex::new(DBM::new(db_path.clone()).unwrap()));

        let (tower_sk, tower_pk) = {
            let locked_db = dbm.lock().unwrap();
            if let Some(sk) = locked_db.load_tower_key() {
                (sk, PublicKey::from_secret_key(&Secp256k1::new(), &sk))
            } else {
                // teosd would create a random key here; the harness always pre-stores one.
                let k = tower_keys();
                locked_db.store_tower_key(&k.sk).unwrap();
                (k.sk, k.pk)
            }
        };

        let bitcoind_reachable: Reachable = Arc::new((Mutex::new(true), Condvar::new()));
        let rpc = Arc::new(bitcoincore_rpc::Client::from_jsonrpc(
            jsonrpc::Client::with_transport(SimTransport(env.clone())),
        ));

        let source = SimSource(env.clone());
        let last_known_block = dbm.lock().unwrap().load_last_known_block();
        let tip = if let Some(block_hash) = last_known_block {
            block_on(source.get_header(&block_hash, None))
                .map_err(|e| BootError::Source(format!("{:?}", e.kind())))?
                .validate(block_hash)
                .map_err(|e| BootError::Source(format!("{:?}", e.kind())))?
        } else {
            block_on(validate_best_block_header(&source))
                .map_err(|e| BootError::Source(format!("{:?}", e.kind())))?
        };

        if tip.height < IRREVOCABLY_RESOLVED {
            return Err(BootError::NotEnoughBlocks);
        }

        let gatekeeper = Arc::new(Gatekeeper::new(
            tip.height,
            cfg.slots,
            cfg.duration,
            cfg.grace,
            dbm.clone(),
        ));

        let mut poller = ChainPoller::new(Box::new(source), Network::Regtest);
        let (responder, watcher) = {
            let last_n_blocks =
                block_on(get_last_n_blocks(&mut poller, tip, IRREVOCABLY_RESOLVED as usize))
                    .map_err(|e| BootError::Source(format!("{:?}", e.kind())))?;

            let responder = Arc::new(Responder::new(
                &last_n_blocks,
                tip.height,
                Carrier::new(rpc, bitcoind_reachable.clone(), tip.height),
                gatekeeper.clone(),
                dbm.clone(),
            ));
            let watcher = Arc::new(Watcher::new(
                gatekeeper.clone(),
                responder.clone(),
                &last_n_blocks[0..6],
                tip.height,
                tower_sk,
                TowerId(tower_pk),
                dbm.clone(),
            ));
            (responder, watcher)
        };

        let (shutdown_trigger, shutdown_signal) = triggered::trigger();

        // Same order as main.rs: gatekeeper first, then watcher, then responder.
        // (wrapped in a pass-through recorder so the harness sees which blocks were delivered)
        let listener: Arc<Listeners> = Arc::new(crate::world::RecordingListener {
            inner: (
                gatekeeper.clone(),
                Arc::new((watcher.clone(), responder.clone())),
            ),
            env: env.clone(),
            log,
        });
        let cache: *mut UnboundedCache = Box::into_raw(Box::new(UnboundedCache::new()));
        let cache_ref: &'static mut UnboundedCache = unsafe { &mut *cache };
        let spv_client = SpvClient::new(tip, poller, cache_ref, listener);
        let chain_monitor = block_on(ChainMonitor::new(
            spv_client,
            tip,
            dbm.clone(),
            60,
            shutdown_signal,
            bitcoind_reachable.clone(),
        ));
        let mut monitor = Monitor {
            inner: Some(chain_monitor),
            cache,
        };

        // Get all the components up to date if there's a backlog of blocks
        monitor.poll();

        let api = Arc::new(InternalAPI::new(
            watcher.clone(),
            vec![msgs::NetworkAddress::from_ipv4("127.0.0.1".into(), 9814)],
            bitcoind_reachable.clone(),
            shutdown_trigger,
        ));

        Ok(Tower {
            monitor: Some(monitor),
            gatekeeper,
            watcher,
            responder,
            api,
            reachable: bitcoind_reachable,
            dbm,
            tower_id: TowerId(tower_pk),
            boot_tip_height: tip.height,
        })
    }

    pub fn poll(&mut self) {
        self.monitor.as_mut().unwrap().poll();
    }

    pub fn is_reachable_flag(&self) -> bool {
        *self.reachable.0.lock().unwrap()
    }

    pub fn snapshot(&self) -> String {
        format!(
            "G[{}] W[{}] R[{}] reach={}",
            self.gatekeeper.verif_snapshot(),
            self.watcher.verif_snapshot(),
            self.responder.verif_snapshot(),
            self.is_reachable_flag()
        )
    }

    /// Heights held by gatekeeper / watcher / carrier.
    pub fn heights(&self) -> (u32, u32, u32) {
        fn h(s: &str) -> u32 {
            let s = &s[s.find("height=").unwrap() + 7..];
            s[..s.find(|c: char| !c.is_ascii_digit()).unwrap_or(s.len())]
                .parse()
                .unwrap()
        }
        (
            h(&self.gatekeeper.verif_snapshot()),
            h(&self.watcher.verif_snapshot()),
            h(&self.responder.verif_snapshot()),
        )
    }
}

// ---- API client (in process) -----------------------------------------------------------------

#[derive(Clone)]
pub struct Api(pub Arc<InternalAPI>);

impl Api {
    pub fn register_raw(&self, user_id: Vec<u8>) -> Result<common_msgs::RegisterResponse, ApiErr> {
        block_on(PublicTowerServices::register(
            &self.0,
            Request::new(common_msgs::RegisterRequest { user_id }),
        ))
        .map(|r| r.into_inner())
        .map_err(ApiErr::from)
    }

    pub fn register(&self, user: &Keys) -> Result<common_msgs::RegisterResponse, ApiErr> {
        self.register_raw(user.id().to_vec())
    }

    pub fn add_appointment(
        &self,
        appointment: &Appointment,
        signature: String,
    ) -> Result<common_msgs::AddAppointmentResponse, ApiErr> {
        block_on(PublicTowerServices::add_appointment(
            &self.0,
            Request::new(common_msgs::AddAppointmentRequest {
                appointment: Some(appointment.clone().into()),
                signature,
            }),
        ))
        .map(|r| r.into_inner())
        .map_err(ApiErr::from)
    }

    pub fn get_appointment(
        &self,
        locator: &Locator,
        signature: String,
    ) -> Result<common_msgs::GetAppointmentResponse, ApiErr> {
        block_on(PublicTowerServices::get_appointment(
            &self.0,
            Request::new(common_msgs::GetAppointmentRequest {
                locator: locator.to_vec(),
                signature,
            }),
        ))
        .map(|r| r.into_inner())
        .map_err(ApiErr::from)
    }

    pub fn get_subscription_info(
        &self,
        signature: String,
    ) -> Result<common_msgs::GetSubscriptionInfoResponse, ApiErr> {
        block_on(PublicTowerServices::get_subscription_info(
            &self.0,
            Request::new(common_msgs::GetSubscriptionInfoRequest { signature }),
        ))
        .map(|r| r.into_inner())
        .map_err(ApiErr::from)
    }

    pub fn get_all_appointments(&self) -> Vec<common_msgs::AppointmentData> {
        block_on(PrivateTowerServices::get_all_appointments(&self.0, Request::new(())))
            .unwrap()
            .into_inner()
            .appointments
    }

    pub fn get_appointments(&self, locator: &Locator) -> Vec<common_msgs::AppointmentData> {
        block_on(PrivateTowerServices::get_appointments(
            &self.0,
            Request::new(msgs::GetAppointmentsRequest {
                locator: locator.to_vec(),
            }),
        ))
        .unwrap()
        .into_inner()
        .appointments
    }

    pub fn get_tower_info(&self) -> msgs::GetTowerInfoResponse {
        block_on(PrivateTowerServices::get_tower_info(&self.0, Request::new(())))
            .unwrap()
            .into_inner()
    }

    pub fn get_users(&self) -> Vec<Vec<u8>> {
        block_on(PrivateTowerServices::get_users(&self.0, Request::new(())))
            .unwrap()
            .into_inner()
            .user_ids
    }

    pub fn get_user(&self, user: &Keys) -> Result<msgs::GetUserResponse, ApiErr> {
        block_on(PrivateTowerServices::get_user(
            &self.0,
            Request::new(msgs::GetUserRequest {
                user_id: user.id().to_vec(),
            }),
        ))
        .map(|r| r.into_inner())
        .map_err(ApiErr::from)
    }
}

// ---- database view (the harness's own read-only connection) ------------------------------------

#[derive(Clone, Debug, PartialEq, Eq)]
pub struct ApptRow {
    pub locator: String,
    pub blob: Vec<u8>,
    pub to_self_delay: u32,
    pub user_signature: String,
    pub start_block: u32,
    pub user: String,
}

#[derive(Clone, Debug, PartialEq, Eq)]
pub struct TrackerRow {
    pub dispute: Txid,
    pub penalty: Txid,
    pub penalty_raw: Vec<u8>,
    pub height: u32,
    pub confirmed: bool,
}

#[derive(Clone, Debug, PartialEq, Eq, Default)]
pub struct DbView {
    /// user id hex -> (available_slots, start, expiry)
    pub users: BTreeMap<String, (u32, u32, u32)>,
    /// uuid hex -> row
    pub appointments: BTreeMap<String, ApptRow>,
    pub trackers: BTreeMap<String, TrackerRow>,
    pub last_known_block: Option<BlockHash>,
    pub fk_violations: usize,
    pub n_keys: usize,
}

impl DbView {
    pub fn open(path: &PathBuf) -> rusqlite::Connection {
        rusqlite::Connection::open_with_flags(
            path,
            rusqlite::OpenFlags::SQLITE_OPEN_READ_ONLY | rusqlite::OpenFlags::SQLITE_OPEN_NO_MUTEX,
        )
        .unwrap()
    }

    pub fn read(path: &PathBuf) -> DbView {
        let conn = Self::open(path);
        Self::read_conn(&conn)
    }

    pub fn read_conn(conn: &rusqlite::Connection) -> DbView {
        let mut v = DbView::default();
        {
            let mut st = conn
                .prepare_cached("SELECT user_id, available_slots, subscription_start, subscription_expiry FROM users")
                .unwrap();
            let mut rows = st.query([]).unwrap();
            while let Some(r) = rows.next().unwrap() {
                let id: Vec<u8> = r.get(0).unwrap();
                v.users.insert(
                    hex::encode(id),
                    (r.get(1).unwrap(), r.get(2).unwrap(), r.get(3).unwrap()),
                );
            }
        }
        {
            let mut st = conn
                .prepare_cached("SELECT UUID, locator, encrypted_blob, to_self_delay, user_signature, start_block, user_id FROM appointments")
                .unwrap();
            let mut rows = st.query([]).unwrap();
            while let Some(r) = rows.next().unwrap() {
                let uuid: Vec<u8> = r.get(0).unwrap();
                let loc: Vec<u8> = r.get(1).unwrap();
                let user: Vec<u8> = r.get(6).unwrap();
                v.appointments.insert(
                    hex::encode(uuid),
                    ApptRow {
                        locator: hex::encode(loc),
                        blob: r.get(2).unwrap(),
                        to_self_delay: r.get(3).unwrap(),
                        user_signature: r.get(4).unwrap(),
                        start_block: r.get(5).unwrap(),
                        user: hex::encode(user),
                    },
                );
            }
        }
        {
            let mut st = conn
                .prepare_cached("SELECT UUID, dispute_tx, penalty_tx, height, confirmed FROM trackers")
                .unwrap();
            let mut rows = st.query([]).unwrap();
            while let Some(r) = rows.next().unwrap() {
                let uuid: Vec<u8> = r.get(0).unwrap();
                let d: Vec<u8> = r.get(1).unwrap();
                let p: Vec<u8> = r.get(2).unwrap();
                let dt: Transaction = bitcoin::consensus::deserialize(&d).unwrap();
                let pt: Transaction = bitcoin::consensus::deserialize(&p).unwrap();
                v.trackers.insert(
                    hex::encode(uuid),
                    TrackerRow {
                        dispute: dt.compute_txid(),
                        penalty: pt.compute_txid(),
                        penalty_raw: p,
                        height: r.get(3).unwrap(),
                        confirmed: r.get(4).unwrap(),
                    },
                );
            }
        }
        v.last_known_block = conn
            .query_row("SELECT block_hash FROM last_known_block WHERE id=0", [], |r| {
                let raw: Vec<u8> = r.get(0).unwrap();
                Ok(BlockHash::from_slice(&raw).unwrap())
            })
            .ok();
        v.n_keys = conn
            .query_row("SELECT COUNT(*) FROM keys", [], |r| r.get::<_, usize>(0))
            .unwrap_or(0);
        {
            let mut st = conn.prepare_cached("PRAGMA foreign_key_check").unwrap();
            let mut rows = st.query([]).unwrap();
            while let Some(_r) = rows.next().unwrap() {
                v.fk_violations += 1;
            }
        }
        v
    }

    pub fn canonical(&self) -> String {
        let mut s = String::new();
        for (k, u) in &self.users {
            s.push_str(&format!("U{}:{:?};", &k[..8], u));
        }
        for (k, a) in &self.appointments {
            s.push_str(&format!(
                "A{}:{}:{}:{}:{}:{}:{};",
                &k[..10],
                &a.locator[..8],
                fnv(&a.blob),
                a.to_self_delay,
                fnv(a.user_signature.as_bytes()),
                a.start_block,
                &a.user[..8]
            ));
        }
        for (k, t) in &self.trackers {
            s.push_str(&format!(
                "T{}:{}:{}:{}:{};",
                &k[..10],
                crate::sim::tx_label(&t.dispute),
                crate::sim::tx_label(&t.penalty),
                t.height,
                t.confirmed
            ));
        }
        s.push_str(&format!("lkb={:?}", self.last_known_block));
        s
    }
}

pub fn fnv(b: &[u8]) -> u64 {
    b.iter().fold(0xcbf29ce484222325u64, |h, x| {
        (h ^ *x as u64).wrapping_mul(0x100000001b3)
    })
}

// ---- scratch database files --------------------------------------------------------------------

static DB_COUNTER: AtomicU64 = AtomicU64::new(0);

pub struct ScratchDb {
    pub path: PathBuf,
    dir: PathBuf,
}

impl ScratchDb {
    pub fn new() -> Self {
        let base = if std::path::Path::new("/dev/shm").is_dir() {
            PathBuf::from("/dev/shm")
        } else {
            std::env::temp_dir()
        };
        let n = DB_COUNTER.fetch_add(1, Ordering::Relaxed);
        // One directory per world: sqlite creates and unlinks a journal file for every write
        // transaction, and a shared directory would serialise all workers on its inode lock.
        let dir = base.join(format!("verif-teos-{}", std::process::id())).join(format!("{n}"));
        let _ = std::fs::remove_dir_all(&dir);
        std::fs::create_dir_all(&dir).unwrap();
        let path = dir.join("teos_db.sql3");
        ScratchDb { path, dir }
    }
}

impl Drop for ScratchDb {
    fn drop(&mut self) {
        let _ = std::fs::remove_dir_all(&self.dir);
    }
}

pub fn cleanup_scratch() {
    let base = if std::path::Path::new("/dev/shm").is_dir() {
        PathBuf::from("/dev/shm")
    } else {
        std::env::temp_dir()
    };
    let _ = std::fs::remove_dir_all(base.join(format!("verif-teos-{}", std::process::id())));
}

/// C02 at RPC granularity: is there, right now, an appointment or tracker of a still registered user
/// that justifies submitting `tx`? Returns a description when there is none.
pub fn send_is_unjustified(path: &PathBuf, tx: &Transaction) -> Option<String> {
    let db = DbView::read(path);
    let txid = tx.compute_txid();
    for (uuid, t) in db.trackers.iter() {
        if t.penalty == txid || t.dispute == txid {
            let owner_present = db.appointments.get(uuid).map_or(false, |a| db.users.contains_key(&a.user));
            if owner_present {
                return None;
            }
        }
    }
    for a in db.appointments.values() {
        if !db.users.contains_key(&a.user) {
            continue;
        }
        for k in 1..=3u8 {
            let d = crate::sim::txid_of(crate::sim::TxName::D(k));
            if hex::encode(Locator::new(d).to_vec()) == a.locator {
                if let Ok(p) = cryptography::decrypt(&a.blob, &d) {
                    if p.compute_txid() == txid {
                        return None;
                    }
                }
            }
        }
    }
    Some(format!(
        "sendrawtransaction({}) while no appointment or tracker of a registered user justifies it (users: {}, appointments: {}, trackers: {})",
        crate::sim::tx_label(&txid),
        db.users.len(),
        db.appointments.len(),
        db.trackers.len()
    ))
}
