//! C06: the forgery matrix, applied at every distinct state of an engine-T search.
//!
//! Every forged request must be answered `Unauthenticated` (or, where the signature happens to be a
//! valid one of *another* registered user, act on that user's data only) and must leave the tower's
//! tables and in-memory state untouched.

use teos_common::appointment::{Appointment, Locator};

use crate::sim::{txid_of, TxName};
use crate::spec::{Spec, Viol};
use crate::tower::{user_keys, ApiErr, Keys};
use crate::world::{make_blob, Blob, World};

fn unauth<T: std::fmt::Debug>(r: &Result<T, ApiErr>) -> bool {
    matches!(r, Err(e) if e.code == tonic::Code::Unauthenticated)
}

/// Signature mutations of a valid signature string.
fn mutations(sig: &str, full: bool) -> Vec<(String, String)> {
    let chars: Vec<char> = sig.chars().collect();
    let mut out: Vec<(String, String)> = Vec::new();
    let lens: Vec<usize> = if full { (0..chars.len()).collect() } else { vec![0, 1, chars.len() / 2, chars.len() - 1] };
    for l in lens {
        out.push((format!("truncated-to-{l}"), chars[..l].iter().collect()));
    }
    let n = chars.len();
    for pos in [0usize, 1, n / 8, n / 4, n / 2, 3 * n / 4, n - 2, n - 1] {
        for c in ['y', '9'] {
            if chars[pos] != c {
                let mut m = chars.clone();
                m[pos] = c;
                out.push((format!("substituted-at-{pos}"), m.into_iter().collect()));
                break;
            }
        }
    }
    out.push(("non-zbase32".into(), "!!!! this is not zbase32 \u{1F600} ####".into()));
    // (an upper-case rendering decodes to the very same signature: not a forgery, not included)
    let mut ext = sig.to_owned();
    ext.push('y');
    out.push(("extended".into(), ext));
    out
}

pub fn forgery_matrix(w: &World, spec: &Spec, full: bool) -> (Vec<Viol>, u64) {
    let mut out: Vec<Viol> = Vec::new();
    let mut n_requests = 0u64;
    if w.dead || spec.lost {
        return (out, 0);
    }
    let api = w.api();
    let before = w.fingerprint_parts();
    let l1 = Locator::new(txid_of(TxName::D(1)));
    let l2 = Locator::new(txid_of(TxName::D(2)));
    let victim = user_keys(1);
    let other = user_keys(2);
    let stranger = user_keys(3);
    let appt = Appointment::new(l1, make_blob(1, Blob::Valid), 42);
    let appt_other_tsd = Appointment::new(l1, make_blob(1, Blob::Valid), 43);
    let appt_other_loc = Appointment::new(l2, make_blob(2, Blob::Valid), 42);
    // (the documented message: "get appointment " followed by the 32 hex digits of the locator - spelled out here, not taken
    // from the implementation's Display)
    let get_msg = |l: &Locator| format!("get appointment {}", hex::encode(l.to_vec())).into_bytes();
    let sub_msg = b"get subscription info".to_vec();

    let mut bad = |what: String, detail: String, out: &mut Vec<Viol>| {
        out.push(Viol { props: &["C06"], sig: format!("forgery-accepted:{what}"), detail });
    };

    // Which users are currently usable (registered and not expired)?
    let usable = |u: u8| spec.users.get(&u).map_or(false, |su| spec.height < su.expiry);

    // 1. signatures of the right key over the wrong message
    let cross: Vec<(&str, Vec<u8>)> = vec![
        ("sig-over-get-appointment", get_msg(&l1)),
        ("sig-over-get-subscription-info", sub_msg.clone()),
        ("sig-over-same-appointment-other-to_self_delay", appt_other_tsd.to_vec()),
        ("sig-over-other-appointment", appt_other_loc.to_vec()),
        ("sig-over-empty-message", vec![]),
    ];
    for signer in [&victim, &other] {
        for (name, msg) in cross.iter() {
            let sig = signer.sign(msg);
            n_requests += 3;
            let r = api.add_appointment(&appt, sig.clone());
            if !unauth(&r) {
                bad(format!("add:{name}"), format!("add_appointment accepted a signature over another message: {r:?}"), &mut out);
            }
            if *name != "sig-over-get-appointment" {
                let r = api.get_appointment(&l1, sig.clone());
                if !unauth(&r) {
                    bad(format!("get:{name}"), format!("get_appointment accepted a signature over another message: {:?}", r.map(|x| x.status)), &mut out);
                }
            } else {
                // signature over "get appointment L1" presented for L2
                let r = api.get_appointment(&l2, sig.clone());
                if !unauth(&r) {
                    bad("get:sig-over-other-locator".into(), format!("get_appointment(L2) accepted a signature over 'get appointment L1': {:?}", r.map(|x| x.status)), &mut out);
                }
            }
            if *name != "sig-over-get-subscription-info" {
                let r = api.get_subscription_info(sig.clone());
                if !unauth(&r) {
                    bad(format!("info:{name}"), format!("get_subscription_info accepted a signature over another message: {:?}", r.map(|x| x.available_slots)), &mut out);
                }
            }
        }
    }
    // 1b. a captured request re-sent with one field of the appointment changed: the signature covers every
    // byte of (locator, encrypted blob, to_self_delay), so each of these is somebody else's message
    {
        let base = Appointment::new(l1, make_blob(1, Blob::Valid), 42);
        let blob = base.encrypted_blob.clone();
        let mut variants: Vec<(String, Appointment)> = Vec::new();
        for (name, tsd) in [("to_self_delay+1", 43u32), ("to_self_delay+2^8", 42 + (1 << 8)), ("to_self_delay+2^16", 42 + (1 << 16)), ("to_self_delay+2^24", 42 + (1 << 24)), ("to_self_delay+2^31", 42 + (1u32 << 31)), ("to_self_delay=0", 0), ("to_self_delay=max", u32::MAX)] {
            variants.push((name.to_owned(), Appointment::new(l1, blob.clone(), tsd)));
        }
        for (name, f) in [("blob-first-byte", 0usize), ("blob-last-byte", blob.len() - 1)] {
            let mut b = blob.clone();
            b[f] ^= 0x01;
            variants.push((name.to_owned(), Appointment::new(l1, b, 42)));
        }
        variants.push(("blob-one-byte-shorter".into(), Appointment::new(l1, blob[..blob.len() - 1].to_vec(), 42)));
        variants.push(("blob-one-byte-longer".into(), Appointment::new(l1, [blob.clone(), vec![0]].concat(), 42)));
        variants.push(("blob-empty".into(), Appointment::new(l1, vec![], 42)));
        for (name, pos) in [("locator-first-byte", 0usize), ("locator-last-byte", 15)] {
            let mut l = l1.to_vec();
            l[pos] ^= 0x01;
            variants.push((name.to_owned(), Appointment::new(Locator::from_slice(&l).unwrap(), blob.clone(), 42)));
        }
        // the last byte of the blob moved into to_self_delay's first byte and vice versa (field boundaries)
        for signer in [&victim, &other] {
            let sig = signer.sign(&base.to_vec());
            for (name, a) in variants.iter() {
                n_requests += 1;
                let r = api.add_appointment(a, sig.clone());
                if !unauth(&r) {
                    bad(format!("add:signature-of-the-original-with-{name}-changed"), format!("add_appointment accepted an appointment that differs from the signed one in {name}: {r:?}"), &mut out);
                }
            }
        }
    }
    // 2. unregistered key, expired users: correct message, wrong standing
    let mut standing: Vec<(&str, &Keys, Option<u32>)> = vec![("unregistered-key", &stranger, None)];
    for (u, k) in [(1u8, &victim), (2u8, &other)] {
        if let Some(su) = spec.users.get(&u) {
            if spec.height >= su.expiry {
                standing.push(("expired-user", k, Some(su.expiry)));
            }
        } else {
            standing.push(("not-registered-user", k, None));
        }
    }
    for (name, k, expiry) in standing {
        n_requests += 3;
        let checks: Vec<(&str, Result<(), ApiErr>)> = vec![
            ("add", api.add_appointment(&appt, k.sign(&appt.to_vec())).map(|_| ())),
            ("get", api.get_appointment(&l1, k.sign(&get_msg(&l1))).map(|_| ())),
            ("info", api.get_subscription_info(k.sign(&sub_msg)).map(|_| ())),
        ];
        for (kind, r) in checks {
            let ok = match (&r, expiry) {
                (Err(e), Some(x)) => e.code == tonic::Code::Unauthenticated && e.msg.contains(&format!("expired at {x}")),
                (Err(e), None) => e.code == tonic::Code::Unauthenticated,
                _ => false,
            };
            if !ok {
                bad(format!("{kind}:{name}"), format!("{kind} by {name}: {r:?}"), &mut out);
            }
        }
    }
    // 3. mutated signatures of a usable user (full set on get_subscription_info, a spread on the others)
    for (u, k) in [(1u8, &victim), (2u8, &other)] {
        if !usable(u) {
            continue;
        }
        let s_info = k.sign(&sub_msg);
        for (name, m) in mutations(&s_info, full) {
            n_requests += 1;
            let r = std::panic::catch_unwind(std::panic::AssertUnwindSafe(|| api.get_subscription_info(m.clone())));
            match r {
                Ok(r) if unauth(&r) => {}
                Ok(r) => bad(format!("info:{name}"), format!("get_subscription_info with a {name} signature of U{u}: {:?}", r.map(|x| x.available_slots)), &mut out),
                Err(_) => out.push(Viol { props: &["C06", "C11"], sig: format!("forgery-panics:info:{name}"), detail: format!("handler panicked on a {name} signature") }),
            }
        }
        let s_add = k.sign(&appt.to_vec());
        let s_get = k.sign(&get_msg(&l1));
        for (name, m) in mutations(&s_add, false) {
            n_requests += 1;
            match std::panic::catch_unwind(std::panic::AssertUnwindSafe(|| api.add_appointment(&appt, m.clone()))) {
                Ok(r) if unauth(&r) => {}
                Ok(r) => bad(format!("add:{name}"), format!("add_appointment with a {name} signature of U{u}: {r:?}"), &mut out),
                Err(_) => out.push(Viol { props: &["C06", "C11"], sig: format!("forgery-panics:add:{name}"), detail: format!("handler panicked on a {name} signature") }),
            }
        }
        for (name, m) in mutations(&s_get, false) {
            n_requests += 1;
            match std::panic::catch_unwind(std::panic::AssertUnwindSafe(|| api.get_appointment(&l1, m.clone()))) {
                Ok(r) if unauth(&r) => {}
                Ok(r) => bad(format!("get:{name}"), format!("get_appointment with a {name} signature of U{u}: {:?}", r.map(|x| x.status)), &mut out),
                Err(_) => out.push(Viol { props: &["C06", "C11"], sig: format!("forgery-panics:get:{name}"), detail: format!("handler panicked on a {name} signature") }),
            }
        }
    }
    // nothing may have changed
    let after = w.fingerprint_parts();
    if before != after {
        let which = if before.0 != after.0 { "tables" } else { "memory" };
        out.push(Viol {
            props: &["C06"],
            sig: format!("forged-requests-changed-state:{which}"),
            detail: format!("refused requests changed the tower's {which}"),
        });
    }
    (out, n_requests)
}
