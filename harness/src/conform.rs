//! Process-level conformance (DESIGN 4.7): histories are replayed against the real `teosd` binary
//! (built from /repo with feature `verif`), with the simulated bitcoind served over HTTP JSON-RPC and
//! requests sent to teosd's public HTTP API; the resulting tables and the RPCs teosd made are
//! compared with the in-process run of the same history. This binds engine T's mirror of
//! `teos/src/main.rs` (bootstrap, listener order, cache sizes) to the real thing.

use std::io::{BufRead, BufReader, Read, Write};
use std::net::{TcpListener, TcpStream};
use std::path::PathBuf;
use std::process::{Child, Command, Stdio};
use std::sync::atomic::{AtomicBool, AtomicU64, Ordering};
use std::sync::Arc;
use std::time::{Duration, Instant};

use bitcoin::BlockHash;
use serde_json::{json, Value};

use crate::httpx::{send, Req};
use crate::sim::{Env, Replacement, TxName};
use crate::tower::{user_keys, DbView, TowerCfg};
use crate::world::{Blob, Ev, MineSel, World};

pub fn teosd_binary() -> PathBuf {
    if let Ok(p) = std::env::var("VERIF_TEOSD_BIN") {
        return PathBuf::from(p);
    }
    crate::report::verif_dir().join("harness/target/repo-bins/debug/teosd")
}

// ---- bitcoind over HTTP -------------------------------------------------------------------------

pub struct RpcServer {
    pub port: u16,
    stop: Arc<AtomicBool>,
}

/// Number of upcoming `getblock` requests on which the simulated node drops the connection without answering
/// (a glitch that hits exactly a block download; the RPC client's own reconnect-and-retry is a request too).
pub static DROP_GETBLOCK: AtomicU64 = AtomicU64::new(0);

impl Drop for RpcServer {
    fn drop(&mut self) {
        self.stop.store(true, Ordering::SeqCst);
    }
}

fn block_header_json(env: &Env, h: &BlockHash) -> Option<Value> {
    let c = env.lock();
    let e = c.entry(h)?;
    let hd = &e.block.header;
    Some(json!({
        "hash": h.to_string(),
        "confirmations": 1,
        "height": e.height,
        "version": hd.version.to_consensus(),
        "merkleroot": hd.merkle_root.to_string(),
        "time": hd.time,
        "mediantime": hd.time,
        "nonce": hd.nonce,
        "bits": hex::encode(hd.bits.to_consensus().to_be_bytes()),
        "difficulty": 1.0,
        "chainwork": hex::encode(e.chainwork.to_be_bytes()),
        "nTx": e.block.txdata.len(),
        "previousblockhash": hd.prev_blockhash.to_string(),
    }))
}

fn dispatch(env: &Env, method: &str, params: &Value) -> Result<Value, (i32, String)> {
    match method {
        "getblockchaininfo" => {
            let c = env.lock();
            let tip = c.tip;
            let e = c.entry(&tip).unwrap();
            Ok(json!({
                "chain": "regtest", "blocks": e.height, "headers": e.height, "bestblockhash": tip.to_string(),
                "difficulty": 1.0, "mediantime": e.block.header.time, "verificationprogress": 1.0,
                "initialblockdownload": false, "chainwork": hex::encode(e.chainwork.to_be_bytes()),
                "size_on_disk": 1000, "pruned": false, "softforks": {}, "warnings": ""
            }))
        }
        "getbestblockhash" => Ok(json!(env.lock().tip.to_string())),
        "getblockcount" => Ok(json!(env.lock().height())),
        "getnetworkinfo" => Ok(json!({"version": 250000, "subversion": "/Satoshi:25.0.0/", "protocolversion": 70016})),
        "getblockheader" => {
            let h: BlockHash = params.get(0).and_then(|v| v.as_str()).and_then(|s| s.parse().ok()).ok_or((-8, "bad hash".to_owned()))?;
            block_header_json(env, &h).ok_or((-5, "Block not found".to_owned()))
        }
        "getblock" => {
            let h: BlockHash = params.get(0).and_then(|v| v.as_str()).and_then(|s| s.parse().ok()).ok_or((-8, "bad hash".to_owned()))?;
            let c = env.lock();
            c.entry(&h).map(|e| json!(hex::encode(bitcoin::consensus::serialize(&e.block)))).ok_or((-5, "Block not found".to_owned()))
        }
        "getblockhash" => {
            let n = params.get(0).and_then(|v| v.as_u64()).ok_or((-8, "bad height".to_owned()))? as u32;
            env.lock().active_hash(n).map(|h| json!(h.to_string())).ok_or((-8, "Block height out of range".to_owned()))
        }
        "sendrawtransaction" | "getrawtransaction" => env.lock().rpc_pub(method, params),
        _ => Err((-32601, "Method not found".to_owned())),
    }
}

fn serve_conn(mut stream: TcpStream, env: Env, stop: Arc<AtomicBool>) {
    let _ = stream.set_read_timeout(Some(Duration::from_millis(500)));
    let mut reader = BufReader::new(stream.try_clone().unwrap());
    loop {
        if stop.load(Ordering::SeqCst) {
            return;
        }
        let mut first = String::new();
        match reader.read_line(&mut first) {
            Ok(0) => return,
            Ok(_) => {}
            Err(_) => continue,
        }
        if first.trim().is_empty() {
            continue;
        }
        let mut len = 0usize;
        loop {
            let mut line = String::new();
            if reader.read_line(&mut line).is_err() || line == "\r\n" || line.is_empty() {
                break;
            }
            if let Some(v) = line.to_lowercase().strip_prefix("content-length:") {
                len = v.trim().parse().unwrap_or(0);
            }
        }
        let mut body = vec![0u8; len];
        if reader.read_exact(&mut body).is_err() {
            return;
        }
        let req: Value = serde_json::from_slice(&body).unwrap_or(Value::Null);
        let method = req["method"].as_str().unwrap_or("");
        if method == "getblock" && DROP_GETBLOCK.load(Ordering::SeqCst) > 0 {
            DROP_GETBLOCK.fetch_sub(1, Ordering::SeqCst);
            return;
        }
        let params = req.get("params").cloned().unwrap_or(json!([]));
        let resp = match dispatch(&env, method, &params) {
            Ok(v) => json!({"result": v, "error": null, "id": req["id"]}),
            Err((code, message)) => json!({"result": null, "error": {"code": code, "message": message}, "id": req["id"]}),
        };
        let txt = resp.to_string();
        let out = format!("HTTP/1.1 200 OK\r\nContent-Type: application/json\r\nContent-Length: {}\r\nConnection: keep-alive\r\n\r\n{}", txt.len(), txt);
        if stream.write_all(out.as_bytes()).is_err() {
            return;
        }
    }
}

impl RpcServer {
    pub fn start(env: Env) -> RpcServer {
        Self::start_on(env, 0).unwrap()
    }

    /// The node goes away: the listener is closed and open connections are dropped.
    pub fn stop(&self) {
        self.stop.store(true, Ordering::SeqCst);
        std::thread::sleep(Duration::from_millis(700));
    }

    pub fn start_on(env: Env, port: u16) -> Option<RpcServer> {
        let l = TcpListener::bind(("127.0.0.1", port)).ok()?;
        let port = l.local_addr().unwrap().port();
        let stop = Arc::new(AtomicBool::new(false));
        let s2 = stop.clone();
        l.set_nonblocking(true).unwrap();
        std::thread::spawn(move || loop {
            if s2.load(Ordering::SeqCst) {
                break;
            }
            match l.accept() {
                Ok((stream, _)) => {
                    stream.set_nonblocking(false).unwrap();
                    let (e, s3) = (env.clone(), s2.clone());
                    std::thread::spawn(move || serve_conn(stream, e, s3));
                }
                Err(_) => std::thread::sleep(Duration::from_millis(3)),
            }
        });
        Some(RpcServer { port, stop })
    }
}

// ---- teosd ------------------------------------------------------------------------------------------

static DIRS: AtomicU64 = AtomicU64::new(0);

pub struct Teosd {
    child: Child,
    pub api: std::net::SocketAddr,
    pub db: PathBuf,
}

impl Drop for Teosd {
    fn drop(&mut self) {
        let _ = self.child.kill();
        let _ = self.child.wait();
    }
}

pub struct DataDir(pub PathBuf);
impl DataDir {
    pub fn new() -> DataDir {
        let base = if std::path::Path::new("/dev/shm").is_dir() { PathBuf::from("/dev/shm") } else { std::env::temp_dir() };
        let d = base.join(format!("verif-teosd-{}", std::process::id())).join(format!("{}", DIRS.fetch_add(1, Ordering::Relaxed)));
        let _ = std::fs::remove_dir_all(&d);
        std::fs::create_dir_all(&d).unwrap();
        DataDir(d)
    }
}
impl Drop for DataDir {
    fn drop(&mut self) {
        let _ = std::fs::remove_dir_all(&self.0);
    }
}

impl Teosd {
    pub fn start(dir: &DataDir, cfg: &TowerCfg, btc_port: u16, ports: (u16, u16, u16)) -> Option<Teosd> {
        let (api_port, rpc_port, internal_port) = ports;
        std::fs::write(
            dir.0.join("teos.toml"),
            format!(
                "subscription_slots = {}\nsubscription_duration = {}\nexpiry_delta = {}\npolling_delta = 1\ninternal_api_port = {}\n",
                cfg.slots, cfg.duration, cfg.grace, internal_port
            ),
        )
        .ok()?;
        let child = Command::new(teosd_binary())
            .args([
                "--datadir",
                dir.0.to_str().unwrap(),
                "--btcnetwork",
                "regtest",
                "--btcrpcuser",
                "u",
                "--btcrpcpassword",
                "p",
                "--btcrpcconnect",
                "127.0.0.1",
                "--btcrpcport",
                &btc_port.to_string(),
                "--apibind",
                "127.0.0.1",
                "--apiport",
                &api_port.to_string(),
                "--rpcbind",
                "127.0.0.1",
                "--rpcport",
                &rpc_port.to_string(),
            ])
            .env_remove("VERIF_CRASH_AT")
            .stdin(Stdio::null())
            .stdout(if std::env::var("VERIF_TEOSD_LOG").is_ok() { Stdio::inherit() } else { Stdio::null() })
            .stderr(if std::env::var("VERIF_TEOSD_LOG").is_ok() { Stdio::inherit() } else { Stdio::null() })
            .spawn()
            .ok()?;
        let api: std::net::SocketAddr = format!("127.0.0.1:{api_port}").parse().unwrap();
        let mut t = Teosd { child, api, db: dir.0.join("regtest").join("teos_db.sql3") };
        // wait for the HTTP API
        let t0 = Instant::now();
        loop {
            if t0.elapsed() > Duration::from_secs(30 * PATIENCE.load(std::sync::atomic::Ordering::Relaxed)) || !matches!(t.child.try_wait(), Ok(None)) {
                return None;
            }
            let r = send(api, &Req { method: "GET".into(), path: "/ping".into(), body: vec![], content_length: false, content_type: None }, Duration::from_secs(1));
            if r.map_or(false, |r| r.status == 200) {
                return Some(t);
            }
            std::thread::sleep(Duration::from_millis(50));
        }
    }

    fn post(&self, path: &str, body: Value) -> Option<(u16, Value)> {
        let r = send(self.api, &Req::post(path, body.to_string().as_bytes()), Duration::from_secs(10 * PATIENCE.load(std::sync::atomic::Ordering::Relaxed)))?;
        Some((r.status, serde_json::from_slice(&r.body).unwrap_or(Value::Null)))
    }

    /// Waits until teosd has processed the chain up to the node's tip.
    fn wait_synced(&self, env: &Env) -> bool {
        let tip = env.lock().tip;
        let t0 = Instant::now();
        while t0.elapsed() < Duration::from_secs(15 * PATIENCE.load(std::sync::atomic::Ordering::Relaxed)) {
            if self.db.exists() && DbView::read(&self.db).last_known_block == Some(tip) {
                return true;
            }
            std::thread::sleep(Duration::from_millis(40));
        }
        false
    }
}

/// Multiplier of every wait: 1 in the parallel run, 6 when a trace whose only fault was a wait that ran out is
/// repeated on its own (real time on a loaded machine proves nothing).
static PATIENCE: std::sync::atomic::AtomicU64 = std::sync::atomic::AtomicU64::new(1);

fn is_a_wait_that_ran_out(e: &str) -> bool {
    e.contains("within 15 s") || e.contains("did not come up") || e.contains("did not restart") || e.contains("did not catch up") || e.contains("no reply to")
}

/// Three ports nobody in this process has been given before (ten teosd processes are started side by side: asking
/// the OS for "any free port" and releasing it again lets two of them end up with the same one - one tower's HTTP
/// front end then talks to another tower's listener and answers "unexpected error").
fn free_ports() -> (u16, u16, u16) {
    static NEXT: std::sync::atomic::AtomicU32 = std::sync::atomic::AtomicU32::new(0);
    let mut take = || loop {
        let n = NEXT.fetch_add(1, Ordering::SeqCst);
        let port = 21000 + ((std::process::id() % 300) * 100 + n % 100 + (n / 100) * 31) as u16 % 11000; // below the ephemeral range the OS hands out
        if std::net::TcpListener::bind(("127.0.0.1", port)).is_ok() {
            return port;
        }
    };
    (take(), take(), take())
}

#[derive(Debug, Clone, PartialEq, Eq)]
struct View {
    users: Vec<(String, (u32, u32, u32))>,
    appts: Vec<(String, u64, u32, u32, String)>,
    trackers: Vec<(String, String, String, u32, bool)>,
    sends: Vec<String>,
    replies: Vec<String>,
}

fn view(db: &DbView, env: &Env, replies: Vec<String>) -> View {
    let mut sends: Vec<String> = env
        .lock()
        .rpc_log
        .iter()
        .filter(|r| r.method == "sendrawtransaction")
        .map(|r| format!("{}:{}", r.txid.map(|t| crate::sim::tx_label(&t)).unwrap_or_default(), r.verdict))
        .collect();
    sends.sort();
    View {
        users: db.users.iter().map(|(k, v)| (k.clone(), *v)).collect(),
        appts: db.appointments.iter().map(|(k, a)| (k.clone(), crate::tower::fnv(&a.blob), a.to_self_delay, a.start_block, a.user.clone())).collect(),
        trackers: db.trackers.iter().map(|(k, t)| (k.clone(), crate::sim::tx_label(&t.dispute), crate::sim::tx_label(&t.penalty), t.height, t.confirmed)).collect(),
        sends,
        replies,
    }
}

/// Histories covering every event kind the engine uses (restart, reorg, multi-block poll, the
/// 6-block window, completion).
pub fn traces() -> Vec<(String, TowerCfg, Vec<Ev>)> {
    let cfg = TowerCfg { slots: 3, duration: 400, grace: 6, txindex: false };
    let add = |u, k, b| Ev::Add { user: u, disp: k, blob: b, tsd: 42 };
    let mine = |txs: Vec<TxName>| Ev::MineP(MineSel::Txs(txs));
    vec![
        ("breach-and-confirmation".into(), cfg, vec![Ev::Register(1), add(1, 1, Blob::Valid), mine(vec![TxName::D(1)]), Ev::MineP(MineSel::Mempool), Ev::Register(2), add(2, 1, Blob::Valid)]),
        // the dispute is 5 blocks old when the appointment arrives: still inside the 6-block cache
        ("late-appointment-inside-window".into(), cfg, vec![Ev::Register(1), mine(vec![TxName::D(1)]), Ev::AdvanceBulk(5), add(1, 1, Blob::Valid)]),
        // ... and 6 blocks old: outside
        ("late-appointment-outside-window".into(), cfg, vec![Ev::Register(1), mine(vec![TxName::D(1)]), Ev::AdvanceBulk(6), add(1, 1, Blob::Valid)]),
        ("reorg-and-restart".into(), cfg, vec![Ev::Register(1), add(1, 1, Blob::Valid), mine(vec![TxName::D(1)]), Ev::MineP(MineSel::Mempool), Ev::ReorgP { depth: 1, how: Replacement::Unconfirm }, Ev::Restart, Ev::MineP(MineSel::Mempool)]),
        ("multi-block-poll-with-invalid-and-refused".into(), cfg, vec![Ev::Register(1), Ev::Register(2), add(1, 1, Blob::Raw(40)), add(2, 1, Blob::Bad), add(1, 2, Blob::Valid), Ev::Mine(MineSel::Txs(vec![TxName::D(1)])), Ev::Mine(MineSel::Txs(vec![TxName::D(2)])), Ev::Poll]),
        ("expiry-and-purge".into(), TowerCfg { slots: 2, duration: 2, grace: 1, txindex: false }, vec![Ev::Register(1), add(1, 1, Blob::Valid), Ev::MineP(MineSel::Empty), Ev::Register(1), Ev::AdvanceBulk(2), add(1, 2, Blob::Valid), Ev::AdvanceBulk(3), Ev::Register(1)]),
        // what the tower rebuilds at start-up (locator cache of the last 6 blocks, tx index of the last 100) must
        // be what it would hold had it never gone down: the dispute is in the very last block seen before
        // the shutdown, resp. the oldest block of the window, resp. just outside
        ("restart-then-late-appointment-for-the-last-block-seen".into(), cfg, vec![Ev::Register(1), mine(vec![TxName::D(1)]), Ev::Restart, add(1, 1, Blob::Valid)]),
        ("restart-then-late-appointment-at-the-window-edge".into(), cfg, vec![Ev::Register(1), Ev::Register(2), mine(vec![TxName::D(1)]), Ev::AdvanceBulk(5), Ev::Restart, add(1, 1, Blob::Valid), Ev::MineP(MineSel::Empty), add(2, 1, Blob::Valid)]),
        ("restart-shortly-before-completion".into(), cfg, vec![Ev::Register(1), add(1, 1, Blob::Valid), mine(vec![TxName::D(1)]), Ev::MineP(MineSel::Mempool), Ev::AdvanceBulk(97), Ev::Restart, Ev::MineP(MineSel::Empty), Ev::MineP(MineSel::Empty), Ev::MineP(MineSel::Empty)]),
        ("completion-after-100".into(), cfg, vec![Ev::Register(1), add(1, 1, Blob::Valid), mine(vec![TxName::D(1)]), Ev::MineP(MineSel::Mempool), Ev::AdvanceBulk(99), Ev::MineP(MineSel::Empty), Ev::MineP(MineSel::Empty)]),
    ]
}

/// Runs one history against the real teosd and in process; returns a description of the first
/// difference, if any.
pub fn run_trace(name: &str, cfg: &TowerCfg, history: &[Ev]) -> Result<(), String> {
    // ---- in process
    let mut w = World::new(*cfg);
    w.boot().map_err(|e| format!("in-process boot: {e}"))?;
    let mut replies_a = Vec::new();
    let mut steps_a: Vec<(usize, View)> = Vec::new();
    // states are compared after every event both sides have fully digested (not after a block the
    // tower has not been made to poll yet)
    let synced = |ev: &Ev| !matches!(ev, Ev::Mine(_) | Ev::Reorg { .. } | Ev::External(_) | Ev::Evict(_));
    for (i, ev) in history.iter().enumerate() {
        let o = w.apply(ev);
        if let Some(p) = o.panic {
            return Err(format!("in-process run panicked at {ev:?}: {p}"));
        }
        if let Some(api) = o.api {
            replies_a.push(match api {
                crate::world::ApiOutcome::Register(r) => r.map(|x| format!("reg:{}:{}:{}", x.available_slots, x.subscription_start, x.subscription_expiry)).unwrap_or_else(|e| format!("err:{:?}", e.code)),
                crate::world::ApiOutcome::Add(r) => r.map(|x| format!("add:{}:{}", x.start_block, x.available_slots)).unwrap_or_else(|e| format!("err:{:?}", e.code)),
            });
        }
        if synced(ev) {
            steps_a.push((i, view(&w.db_view(), &w.env, replies_a.clone())));
        }
    }
    let va = view(&w.db_view(), &w.env, replies_a);
    drop(w);
    // ---- real teosd
    let env = Env::new(cfg.txindex);
    let rpc = RpcServer::start(env.clone());
    let dir = DataDir::new();
    let ports = free_ports();
    let mut t = Teosd::start(&dir, cfg, rpc.port, ports).ok_or_else(|| "teosd did not come up".to_owned())?;
    let mut replies_b = Vec::new();
    let code_name = |status: u16, v: &Value| -> String {
        match (status, v["error_code"].as_u64()) {
            (401, _) => "err:Unauthenticated".into(),
            (_, Some(35)) => "err:AlreadyExists".into(),
            (_, Some(65)) => "err:ResourceExhausted".into(),
            (s, c) => format!("err:http{s}:{c:?}"),
        }
    };
    let mut steps_b: Vec<(usize, View)> = Vec::new();
    for (i, ev) in history.iter().enumerate() {
        if i > 0 && synced(&history[i - 1]) {
            steps_b.push((i - 1, view(&DbView::read(&t.db), &env, replies_b.clone())));
        }
        match ev {
            Ev::Register(u) => {
                let (s, v) = t.post("/register", json!({"user_id": user_keys(*u).hex()})).ok_or("no reply to register")?;
                replies_b.push(if s == 200 { format!("reg:{}:{}:{}", v["available_slots"], v["subscription_start"], v["subscription_expiry"]) } else { code_name(s, &v) });
            }
            Ev::Add { user, disp, blob, tsd } => {
                let (a, sig) = World::make_appointment(&user_keys(*user), *disp, *blob, *tsd);
                let (s, v) = t
                    .post("/add_appointment", json!({"appointment": {"locator": hex::encode(a.locator.to_vec()), "encrypted_blob": hex::encode(&a.encrypted_blob), "to_self_delay": a.to_self_delay}, "signature": sig}))
                    .ok_or("no reply to add_appointment")?;
                replies_b.push(if s == 200 { format!("add:{}:{}", v["start_block"], v["available_slots"]) } else { code_name(s, &v) });
            }
            Ev::Mine(sel) | Ev::MineP(sel) => {
                {
                    let mut c = env.lock();
                    match sel {
                        MineSel::Empty => {
                            c.mine(vec![]);
                        }
                        MineSel::Mempool => {
                            c.mine_mempool();
                        }
                        MineSel::Txs(names) => {
                            c.mine(names.iter().map(|n| crate::sim::build_tx(*n)).collect());
                        }
                    }
                }
                if matches!(ev, Ev::MineP(_)) && !t.wait_synced(&env) {
                    return Err(format!("teosd did not process the block of {ev:?} within 15 s"));
                }
            }
            Ev::Poll => {
                if !t.wait_synced(&env) {
                    return Err("teosd did not catch up within 15 s".into());
                }
            }
            Ev::Evict(n) => {
                env.lock().mempool.remove(&crate::sim::txid_of(*n));
            }
            Ev::External(n) => {
                let _ = env.lock().submit(&crate::sim::build_tx(*n));
            }
            Ev::Reorg { depth, how } | Ev::ReorgP { depth, how } => {
                env.lock().reorg(*depth as u32, *how);
                if matches!(ev, Ev::ReorgP { .. }) && !t.wait_synced(&env) {
                    return Err("teosd did not follow the reorg within 15 s".into());
                }
            }
            Ev::Advance(n) | Ev::AdvanceBulk(n) => {
                for _ in 0..*n {
                    env.lock().mine(vec![]);
                    if matches!(ev, Ev::Advance(_)) && !t.wait_synced(&env) {
                        return Err("teosd did not catch up within 15 s".into());
                    }
                }
                if !t.wait_synced(&env) {
                    return Err("teosd did not catch up within 15 s".into());
                }
            }
            Ev::Restart => {
                drop(t);
                let _ = ports;
                t = Teosd::start(&dir, cfg, rpc.port, free_ports()).ok_or_else(|| "teosd did not restart".to_owned())?;
                if !t.wait_synced(&env) {
                    return Err("teosd did not catch up after the restart".into());
                }
            }
        }
    }
    if history.last().map_or(false, synced) {
        steps_b.push((history.len() - 1, view(&DbView::read(&t.db), &env, replies_b.clone())));
    }
    for ((i, a), (j, b)) in steps_a.iter().zip(steps_b.iter()) {
        assert_eq!(i, j);
        if a != b {
            return Err(format!("[{name}] after step {i} ({:?}): harness {a:?} vs teosd {b:?}", history[*i]));
        }
    }
    let vb = view(&DbView::read(&t.db), &env, replies_b);
    if va != vb {
        let what = if va.replies != vb.replies {
            format!("replies differ: harness {:?} vs teosd {:?}", va.replies, vb.replies)
        } else if va.sends != vb.sends {
            format!("submissions differ: harness {:?} vs teosd {:?}", va.sends, vb.sends)
        } else if va.trackers != vb.trackers {
            format!("trackers differ: harness {:?} vs teosd {:?}", va.trackers, vb.trackers)
        } else if va.users != vb.users {
            format!("users differ: harness {:?} vs teosd {:?}", va.users, vb.users)
        } else {
            format!("appointments differ: harness {:?} vs teosd {:?}", va.appts, vb.appts)
        };
        return Err(format!("[{name}] {what}"));
    }
    Ok(())
}

/// Runs all conformance traces (in parallel). Returns (validated, failures).
pub fn run_all(limit: usize) -> (u64, Vec<(String, String)>) {
    run_where(limit, |_| true)
}

/// Only the histories in which the tower is restarted (C03: what a restarted tower rebuilds).
pub fn run_restarts() -> (u64, Vec<(String, String)>) {
    run_where(usize::MAX, |h| h.contains(&Ev::Restart))
}

fn run_where(limit: usize, keep: impl Fn(&[Ev]) -> bool) -> (u64, Vec<(String, String)>) {
    if !teosd_binary().exists() {
        return (0, vec![("machinery".into(), format!("{} missing", teosd_binary().display()))]);
    }
    let ts: Vec<_> = traces().into_iter().filter(|(_, _, h)| keep(h)).take(limit).collect();
    let (res, _) = crate::explore::par_map(&ts, None, |_, (name, cfg, h)| run_trace(name, cfg, h));
    let mut ok = 0;
    let mut bad = Vec::new();
    for ((name, cfg, h), r) in ts.iter().zip(res.into_iter()) {
        match r {
            Some(Ok(())) => ok += 1,
            Some(Err(e)) if is_a_wait_that_ran_out(&e) => {
                // repeat it alone and with six times the patience before believing that teosd is stuck
                PATIENCE.store(6, std::sync::atomic::Ordering::Relaxed);
                let again = run_trace(name, cfg, h);
                PATIENCE.store(1, std::sync::atomic::Ordering::Relaxed);
                match again {
                    Ok(()) => ok += 1,
                    Err(e2) => bad.push((name.clone(), format!("{e2} (first attempt, in parallel with the others: {e})"))),
                }
            }
            Some(Err(e)) => bad.push((name.clone(), e)),
            None => {}
        }
    }
    let base = if std::path::Path::new("/dev/shm").is_dir() { PathBuf::from("/dev/shm") } else { std::env::temp_dir() };
    let _ = std::fs::remove_dir_all(base.join(format!("verif-teosd-{}", std::process::id())));
    (ok, bad)
}

/// Process-level C12: the real teosd (real `BitcoindClient` as block source and RPC client) against a node that
/// goes away for a few polling intervals and comes back on the same port. Err(signature, detail).
pub fn outage_recovery() -> Result<(), (String, String)> {
    let cfg = TowerCfg { slots: 3, duration: 400, grace: 6, txindex: false };
    let env = Env::new(false);
    let rpc = RpcServer::start(env.clone());
    let port = rpc.port;
    let dir = DataDir::new();
    let t = Teosd::start(&dir, &cfg, port, free_ports()).ok_or_else(|| ("machinery:teosd-did-not-come-up".to_owned(), String::new()))?;
    let reg = |u: u8| t.post("/register", json!({"user_id": user_keys(u).hex()}));
    let add = |u: u8, k: u8| {
        let (a, sig) = World::make_appointment(&user_keys(u), k, Blob::Valid, 42);
        t.post("/add_appointment", json!({"appointment": {"locator": hex::encode(a.locator.to_vec()), "encrypted_blob": hex::encode(&a.encrypted_blob), "to_self_delay": a.to_self_delay}, "signature": sig}))
    };
    let patience = |secs: u64| Duration::from_secs(secs * PATIENCE.load(std::sync::atomic::Ordering::Relaxed));
    if reg(1).map(|r| r.0) != Some(200) || add(1, 1).map(|r| r.0) != Some(200) {
        return Err(("machinery:teosd-refused-the-set-up".into(), String::new()));
    }
    // the node goes away; the chain monitor polls every second
    rpc.stop();
    let t0 = Instant::now();
    let mut refused = false;
    while t0.elapsed() < patience(20) {
        if let Some((503, _)) = reg(2) {
            refused = true;
            break;
        }
        std::thread::sleep(Duration::from_millis(200));
    }
    if !refused {
        return Err(("teosd:outage-not-noticed:api-keeps-taking-work".into(), "bitcoind has been unreachable for 20 polling intervals and the public API still does not answer 503".into()));
    }
    // a breach is mined meanwhile, the node comes back on the same port
    env.lock().mine(vec![crate::sim::build_tx(TxName::D(1))]);
    let rpc2 = {
        let t1 = Instant::now();
        loop {
            if let Some(r) = RpcServer::start_on(env.clone(), port) {
                break r;
            }
            if t1.elapsed() > Duration::from_secs(20) {
                return Err(("machinery:cannot-rebind-the-node-port".into(), String::new()));
            }
            std::thread::sleep(Duration::from_millis(100));
        }
    };
    let t0 = Instant::now();
    let mut served = false;
    while t0.elapsed() < patience(30) {
        if let Some((200, _)) = reg(2) {
            served = true;
            break;
        }
        std::thread::sleep(Duration::from_millis(200));
    }
    if !served {
        return Err(("teosd:no-recovery:api-still-unavailable".into(), "bitcoind has been back for 30 polling intervals and the public API still answers 503".into()));
    }
    if !t.wait_synced(&env) {
        return Err(("teosd:no-recovery:block-mined-during-the-outage-not-processed".into(), String::new()));
    }
    let db = DbView::read(&t.db);
    if db.trackers.len() != 1 {
        return Err(("teosd:no-recovery:breach-mined-during-the-outage-not-answered".into(), format!("trackers after recovery: {:?}", db.trackers.keys().collect::<Vec<_>>())));
    }
    // a glitch that hits exactly the download of a block with a breach (the connection is dropped on that request and on
    // the client's immediate retry); everything else keeps working
    if add(1, 2).map(|r| r.0) != Some(200) {
        return Err(("machinery:teosd-refused-the-second-appointment".into(), String::new()));
    }
    DROP_GETBLOCK.store(2, Ordering::SeqCst);
    env.lock().mine(vec![crate::sim::build_tx(TxName::D(2))]);
    let synced = t.wait_synced(&env);
    DROP_GETBLOCK.store(0, Ordering::SeqCst);
    if !synced {
        return Err(("teosd:no-recovery:block-whose-download-was-interrupted-never-processed".into(), String::new()));
    }
    // (the chain position on disk can run ahead of what the listeners were given when a download fails - the recorded
    // finding lkb-ahead-of-listeners - so the block may only be processed by the next poll: give it a few of them)
    let t0 = Instant::now();
    let mut db = DbView::read(&t.db);
    while db.trackers.len() != 2 && t0.elapsed() < patience(10) {
        std::thread::sleep(Duration::from_millis(300));
        db = DbView::read(&t.db);
    }
    if db.trackers.len() != 2 {
        return Err((
            "teosd:breach-in-a-block-whose-download-was-interrupted-not-answered".into(),
            format!("the connection was dropped while that block was being downloaded; trackers afterwards: {}", db.trackers.len()),
        ));
    }
    // once more, and this time nothing is mined while the node is away (the recovering polls find no new tip)
    rpc2.stop();
    let t0 = Instant::now();
    let mut refused = false;
    while t0.elapsed() < patience(20) {
        if let Some((503, _)) = reg(2) {
            refused = true;
            break;
        }
        std::thread::sleep(Duration::from_millis(200));
    }
    if !refused {
        return Err(("teosd:outage-not-noticed:api-keeps-taking-work:second-outage".into(), String::new()));
    }
    let rpc3 = {
        let t1 = Instant::now();
        loop {
            if let Some(r) = RpcServer::start_on(env.clone(), port) {
                break r;
            }
            if t1.elapsed() > Duration::from_secs(20) {
                return Err(("machinery:cannot-rebind-the-node-port".into(), String::new()));
            }
            std::thread::sleep(Duration::from_millis(100));
        }
    };
    let t0 = Instant::now();
    let mut served = false;
    while t0.elapsed() < patience(30) {
        if let Some((200, _)) = reg(2) {
            served = true;
            break;
        }
        std::thread::sleep(Duration::from_millis(200));
    }
    drop(rpc3);
    if !served {
        return Err(("teosd:no-recovery:api-still-unavailable:node-back-without-a-new-block".into(), "bitcoind has been back for 30 polling intervals (no block was mined meanwhile) and the public API still answers 503".into()));
    }
    Ok(())
}

pub fn outage_recovery_patiently() -> Result<(), (String, String)> {
    PATIENCE.store(4, std::sync::atomic::Ordering::Relaxed);
    let r = outage_recovery();
    PATIENCE.store(1, std::sync::atomic::Ordering::Relaxed);
    r
}

pub fn main_cmd() -> i32 {
    let (ok, bad) = run_all(usize::MAX);
    println!("conformance traces validated against teosd: {ok}");
    println!("outage and recovery of the real teosd: {:?}", outage_recovery());
    for (n, e) in bad.iter() {
        println!("DIVERGENCE {n}: {e}");
    }
    (!bad.is_empty()) as i32
}
