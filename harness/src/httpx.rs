//! Real HTTP front end (warp router from `teos::api::http::serve`) + real tonic gRPC server in front
//! of a public-API service (the real tower's `InternalAPI`, or a recording stand-in), on loopback,
//! and a deliberately dumb HTTP/1.1 client that can send arbitrary bytes.

use std::io::{Read, Write};
use std::net::{SocketAddr, TcpListener, TcpStream};
use std::time::{Duration, Instant};

use teos::protos::public_tower_services_server::{PublicTowerServices, PublicTowerServicesServer};

pub fn free_addr() -> SocketAddr {
    let l = TcpListener::bind("127.0.0.1:0").unwrap();
    l.local_addr().unwrap()
}

pub struct Front {
    pub rt: tokio::runtime::Runtime,
    pub http: SocketAddr,
    shutdown: triggered::Trigger,
}

impl Front {
    pub fn start<S: PublicTowerServices>(service: S) -> Front {
        let rt = tokio::runtime::Builder::new_multi_thread().worker_threads(4).enable_all().build().unwrap();
        let grpc = free_addr();
        let http = free_addr();
        let (shutdown, signal) = triggered::trigger();
        let s1 = signal.clone();
        rt.spawn(async move {
            tonic::transport::Server::builder()
                .add_service(PublicTowerServicesServer::new(service))
                .serve_with_shutdown(grpc, s1)
                .await
                .unwrap();
        });
        let (ready, ready_signal) = triggered::trigger();
        rt.spawn(teos::api::http::serve(http, grpc, ready, signal));
        rt.block_on(async {
            tokio::time::timeout(Duration::from_secs(20), ready_signal).await.expect("http front end did not come up");
        });
        Front { rt, http, shutdown }
    }
}

impl Drop for Front {
    fn drop(&mut self) {
        self.shutdown.trigger();
    }
}

#[derive(Clone, Debug)]
pub struct Reply {
    pub status: u16,
    pub body: Vec<u8>,
    pub elapsed: Duration,
    pub raw_head: String,
}

#[derive(Clone, Debug)]
pub struct Req {
    pub method: String,
    pub path: String,
    pub body: Vec<u8>,
    pub content_length: bool,
    pub content_type: Option<String>,
}

impl Req {
    pub fn post(path: &str, body: &[u8]) -> Req {
        Req { method: "POST".into(), path: path.into(), body: body.to_vec(), content_length: true, content_type: Some("application/json".into()) }
    }
}

/// Sends one request on a fresh connection. `None` = no (complete) answer within the time limit.
pub fn send(addr: SocketAddr, req: &Req, limit: Duration) -> Option<Reply> {
    let start = Instant::now();
    let mut s = TcpStream::connect_timeout(&addr, limit).ok()?;
    s.set_read_timeout(Some(limit)).ok()?;
    s.set_write_timeout(Some(limit)).ok()?;
    let mut head = format!("{} {} HTTP/1.1\r\nHost: tower\r\nConnection: close\r\n", req.method, req.path);
    if let Some(ct) = &req.content_type {
        head.push_str(&format!("Content-Type: {ct}\r\n"));
    }
    if req.content_length {
        head.push_str(&format!("Content-Length: {}\r\n", req.body.len()));
    }
    head.push_str("\r\n");
    s.write_all(head.as_bytes()).ok()?;
    let _ = s.write_all(&req.body);
    let _ = s.flush();
    let mut buf = Vec::new();
    let mut tmp = [0u8; 8192];
    loop {
        if start.elapsed() > limit {
            return None;
        }
        match s.read(&mut tmp) {
            Ok(0) => break,
            Ok(n) => {
                buf.extend_from_slice(&tmp[..n]);
                // complete when the announced content-length has arrived
                if let Some(pos) = find(&buf, b"\r\n\r\n") {
                    let head = String::from_utf8_lossy(&buf[..pos]).to_lowercase();
                    if let Some(cl) = head.lines().find_map(|l| l.strip_prefix("content-length:").map(|v| v.trim().parse::<usize>().unwrap_or(0))) {
                        if buf.len() >= pos + 4 + cl {
                            break;
                        }
                    }
                }
            }
            Err(_) => {
                if buf.is_empty() {
                    return None;
                }
                break;
            }
        }
    }
    let pos = find(&buf, b"\r\n\r\n")?;
    let head = String::from_utf8_lossy(&buf[..pos]).to_string();
    let status: u16 = head.split_whitespace().nth(1)?.parse().ok()?;
    let mut body = buf[pos + 4..].to_vec();
    if head.to_lowercase().contains("transfer-encoding: chunked") {
        body = dechunk(&body);
    }
    Some(Reply { status, body, elapsed: start.elapsed(), raw_head: head })
}

fn find(h: &[u8], n: &[u8]) -> Option<usize> {
    h.windows(n.len()).position(|w| w == n)
}

fn dechunk(b: &[u8]) -> Vec<u8> {
    let mut out = Vec::new();
    let mut i = 0;
    while i < b.len() {
        let Some(e) = find(&b[i..], b"\r\n") else { break };
        let n = usize::from_str_radix(String::from_utf8_lossy(&b[i..i + e]).trim(), 16).unwrap_or(0);
        if n == 0 {
            break;
        }
        let start = i + e + 2;
        if start + n > b.len() {
            out.extend_from_slice(&b[start..]);
            break;
        }
        out.extend_from_slice(&b[start..start + n]);
        i = start + n + 2;
    }
    out
}
