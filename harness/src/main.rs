mod checks_crash;
mod checks_http;
mod httpx;
mod plugin;
mod checks_outage;
mod checks_p;
mod checks_pure;
mod checks_s;
mod checks_t;
mod checks_w;
mod conform;
mod explore;
mod forgery;
mod report;
mod sched;
mod sim;
mod spec;
mod tmodel;
mod tower;
mod world;

fn main() {
    world::install_panic_hook();
    let args: Vec<String> = std::env::args().skip(1).collect();
    let cmd = args.first().cloned().unwrap_or_default();
    let a = report::parse_args(&args[1.min(args.len())..]);
    if let Some(path) = &a.replay {
        let v: serde_json::Value = serde_json::from_str(&std::fs::read_to_string(path).unwrap()).unwrap();
        let code = match v["replay"]["history"]["engine"].as_str() {
            Some("T") => tmodel::replay(&v),
            Some("X") => checks_pure::c19_replay(&v),
            Some("W") => checks_w::replay(&v),
            _ if v["replay"]["engine"].as_str() == Some("crash") => checks_crash::replay(&v),
            _ if v["replay"]["engine"].as_str() == Some("boot-files") => checks_crash::replay_boot_files(&v),
            _ if v["replay"]["engine"].as_str() == Some("first-start") => checks_crash::replay_first_start(&v),
            _ if v["replay"]["engine"].as_str() == Some("node-reply") => checks_outage::replay_reply(&v),
            _ if v["replay"]["engine"].as_str() == Some("conform-outage") => match conform::outage_recovery() {
                Ok(()) => 0,
                Err((s, d)) => {
                    println!("VIOL {s} :: {d}");
                    1
                }
            },
            _ if v["replay"]["engine"].as_str() == Some("S") => checks_s::replay(&v),
            _ if v["replay"]["engine"].as_str() == Some("outage") => checks_outage::replay(&v),
            _ if v["replay"]["engine"].as_str() == Some("P") => checks_p::replay(&v),
            _ => {
                eprintln!("no replayer for this file");
                2
            }
        };
        tower::cleanup_scratch();
        std::process::exit(code);
    }
    let cmd2 = cmd.clone();
    let tier = a.tier;
    // last resort against a step of the code under test that never returns (an endless loop; a hang the engines do
    // not model): every check enforces its own wall budget between steps, this fires only if one is stuck inside
    {
        let limit = std::time::Duration::from_secs(std::env::var("VERIF_HARD_LIMIT_S").ok().and_then(|v| v.parse().ok()).unwrap_or(if tier == report::Tier::Quick { 600 } else { 3 * 3600 }));
        let name = cmd.clone();
        std::thread::spawn(move || {
            std::thread::sleep(limit);
            eprintln!("MACHINERY-ERROR: {name} exceeded its hard time limit of {limit:?}: a step does not terminate (no verdict)");
            tower::cleanup_scratch();
            std::process::exit(2);
        });
    }
    let code = std::panic::catch_unwind(std::panic::AssertUnwindSafe(|| run_check(cmd2.as_str(), tier))).unwrap_or_else(|p| {
        // the explorer died of a panic: if it was raised by the code under test at a site no engine guards,
        // that is a finding about that code (the property's check could not even be completed); else machinery
        let msg = world::panic_message(&p);
        let from_repo = world::LAST_REPO_PANIC.lock().ok().and_then(|g| g.clone());
        match from_repo {
            Some(site) if cmd.starts_with('C') => {
                let dir = report::verif_dir().join("replays");
                let _ = std::fs::create_dir_all(&dir);
                let path = dir.join(format!("{cmd}-panic.json"));
                let _ = std::fs::write(&path, serde_json::json!({"property": cmd, "signature": format!("panic-in-code-under-test:{site}"), "detail": msg}).to_string());
                println!("VIOLATION property={cmd} replay={}", path.display());
                println!("  signature: panic-in-code-under-test:{site}");
                println!("  detail: the code under test panicked at a site the engine does not guard and took the explorer down: {msg}");
                1
            }
            _ => {
                eprintln!("MACHINERY-ERROR: the harness panicked: {msg}");
                2
            }
        }
    });
    tower::cleanup_scratch();
    std::process::exit(code);
}

fn run_check(cmd: &str, tier: report::Tier) -> i32 {
    let a = Tiered { tier };
    match cmd {
        "smoke" => smoke(),
        "selftest" => sched::selftest(),
        "conform" => conform::main_cmd(),
        "psmoke" => psmoke(),
        "C01" => checks_t::c01(a.tier),
        "C02" => checks_t::c02(a.tier),
        "C03" => checks_crash::c03(a.tier),
        "C04" => checks_t::c04(a.tier),
        "C05" => checks_p::c05(a.tier),
        "C06" => checks_t::c06(a.tier),
        "C07" => checks_t::c07(a.tier),
        "C08" => checks_t::c08(a.tier),
        "C09" => checks_t::c09(a.tier),
        "C10" => checks_s::c10(a.tier),
        "C11" => checks_s::c11(a.tier),
        "C12" => checks_outage::c12(a.tier),
        "C13" => checks_p::c13(a.tier),
        "C14" => checks_p::c14(a.tier),
        "C15" => checks_http::c15(a.tier),
        "C16" => checks_http::c16(a.tier),
        "C17" => checks_pure::c17(a.tier),
        "C18" => checks_w::c18(a.tier),
        "C19" => checks_pure::c19(a.tier),
        "C20" => checks_pure::c20(a.tier),
        _ => {
            eprintln!("usage: verif <C01..C20|selftest|smoke> [--tier quick|thorough] [--replay file]");
            2
        }
    }
}

struct Tiered {
    tier: report::Tier,
}

fn smoke() -> i32 {
    use sim::*;
    use world::*;
    let t0 = std::time::Instant::now();
    let mut w = World::new(tower::TowerCfg::default());
    w.boot().unwrap();
    println!("boot {:?}", t0.elapsed());
    for ev in [
        Ev::Register(1),
        Ev::Add { user: 1, disp: 1, blob: Blob::Valid, tsd: 42 },
        Ev::MineP(MineSel::Txs(vec![TxName::D(1)])),
        Ev::MineP(MineSel::Mempool),
        Ev::ReorgP { depth: 1, how: Replacement::Unconfirm },
        Ev::MineP(MineSel::Mempool),
        Ev::Restart,
        Ev::Advance(100),
    ] {
        let t = std::time::Instant::now();
        let o = w.apply(&ev);
        println!("{:?} -> api={:?} panic={:?} boot={:?} ({:?})", ev, o.api.is_some(), o.panic, o.boot_error, t.elapsed());
        for t in o.trace.iter() {
            match t {
                Trace::Rpc(r) => println!("    rpc {} {} -> {}", r.method, r.txid.map(|t| tx_label(&t)).unwrap_or_default(), r.verdict),
                Trace::Connect(_, h) => println!("    connect {h}"),
                Trace::Disconnect(_, h) => println!("    disconnect {h}"),
            }
        }
        println!("    db: {}", o.db_after.canonical());
    }
    println!("total {:?}", t0.elapsed());
    0
}

fn psmoke() -> i32 {
    use plugin::*;
    use serde_json::json;
    use std::time::Duration;
    let tower = FakeTower::start(0xe1);
    let dir = ClientDir::new();
    let t0 = std::time::Instant::now();
    let mut c = Client::start(&dir, RetryOpts::default(), None).expect("handshake");
    println!("handshake {:?}", t0.elapsed());
    let r = c.call("registertower", json!([format!("{}@127.0.0.1:{}", tower.id_hex(), tower.port)]), Duration::from_secs(5));
    println!("register -> {r:?}");
    let (rev, loc) = revocation(1);
    let r = c.call("commitment_revocation", rev, Duration::from_secs(5));
    println!("hook -> {r:?} loc {loc}");
    println!("store {:?}", read_store(&dir));
    tower.set_up(false);
    let (rev2, _) = revocation(2);
    let r = c.call("commitment_revocation", rev2, Duration::from_secs(5));
    println!("hook2 -> {r:?}");
    println!("store {:?}", read_store(&dir));
    let r = c.call("listtowers", json!([]), Duration::from_secs(5));
    println!("listtowers -> {r:?}");
    tower.set_up(true);
    let ok = wait_until(Duration::from_secs(10), || read_store(&dir).map_or(false, |s| s.pending.is_empty()));
    println!("delivered after recovery: {ok} in {:?}; store {:?}", t0.elapsed(), read_store(&dir));
    println!("requests: {:?}", tower.requests("/add_appointment").len());
    0
}
