//! Engine T checks: C01, C02, C04, C07, C08, C09 (+ the sequential half of C11).

use std::time::Duration;

use serde_json::json;

use crate::explore::{bfs, merge_stats};
use crate::report::{Run, Tier};
use crate::sim::{Replacement, TxName};
use crate::tmodel::{Alphabet, TowerModel};
use crate::tower::TowerCfg;
use crate::world::{Blob, Ev, MineSel};

fn cfg(slots: u32, duration: u32, grace: u32) -> TowerCfg {
    TowerCfg { slots, duration, grace, txindex: false }
}

/// Named seed states (prefixes executed on the real tower before the search starts).
pub fn seed(name: &str) -> Vec<Ev> {
    let add = |u, k, b| Ev::Add { user: u, disp: k, blob: b, tsd: 42 };
    let mine = |txs: Vec<TxName>| Ev::MineP(MineSel::Txs(txs));
    match name {
        "S0" => vec![],
        // registered user with a watched appointment
        "S1" => vec![Ev::Register(1), add(1, 1, Blob::Valid)],
        // two users on one locator
        "S2" => vec![Ev::Register(1), Ev::Register(2), add(1, 1, Blob::Valid), add(2, 1, Blob::Alt)],
        // tracker with the penalty in the mempool
        "S3" => vec![Ev::Register(1), add(1, 1, Blob::Valid), mine(vec![TxName::D(1)])],
        // tracker confirmed
        "S4" => vec![Ev::Register(1), add(1, 1, Blob::Valid), mine(vec![TxName::D(1)]), Ev::MineP(MineSel::Mempool)],
        // tracker 98 deep (two blocks before completion)
        "S5" => vec![
            Ev::Register(1),
            add(1, 1, Blob::Valid),
            mine(vec![TxName::D(1)]),
            Ev::MineP(MineSel::Mempool),
            Ev::Advance(98),
        ],
        // tracker whose penalty stays unconfirmed (dispute mined, penalty evicted never mined): 4 quiet blocks
        "S6" => vec![Ev::Register(1), add(1, 1, Blob::Valid), mine(vec![TxName::D(1)]), Ev::MineP(MineSel::Empty), Ev::MineP(MineSel::Empty), Ev::MineP(MineSel::Empty), Ev::MineP(MineSel::Empty)],
        // two trackers of one user whose penalties were confirmed in the same block, 97 deep
        "S8" => vec![
            Ev::Register(1),
            add(1, 1, Blob::Valid),
            add(1, 2, Blob::Valid),
            mine(vec![TxName::D(1), TxName::D(2)]),
            Ev::MineP(MineSel::Mempool),
            Ev::Advance(97),
        ],
        // dispute and penalty confirmed (by somebody else) before the tower holds any appointment
        "S9" => vec![mine(vec![TxName::D(1)]), Ev::External(TxName::P(1)), Ev::MineP(MineSel::Mempool)],
        // the dispute is confirmed and a conflicting spend of its output sits in the node's mempool: the
        // penalty bounces (-26) for as long as the node keeps that transaction
        "S10" => vec![Ev::Register(1), mine(vec![TxName::D(1)]), Ev::External(TxName::PAlt(1))],
        // a tracker whose penalty is unconfirmed; the block with the dispute is reorged out and the dispute mined again,
        // but the node has dropped the penalty from its mempool meanwhile (the tower has not polled yet)
        "S11" => vec![
            Ev::Register(1),
            add(1, 1, Blob::Valid),
            mine(vec![TxName::D(1)]),
            Ev::Reorg { depth: 1, how: Replacement::Same },
            Ev::Evict(TxName::P(1)),
        ],
        // as S10, and the appointment has been handed in (its penalty bounced, it was dropped with a receipt), a block later
        "S12" => vec![Ev::Register(1), mine(vec![TxName::D(1)]), Ev::External(TxName::PAlt(1)), add(1, 1, Blob::Valid), Ev::MineP(MineSel::Empty)],
        _ => panic!("unknown seed {name}"),
    }
}

pub fn run_models(run: &Run, models: Vec<(TowerModel, usize)>, total_budget: Duration) {
    let started = std::time::Instant::now();
    let (grid, searches): (Vec<_>, Vec<_>) = models.into_iter().partition(|(_, d)| *d == 0);
    let mut all = Vec::new();
    if !grid.is_empty() {
        // Depth-0 models are single scripted histories: run them side by side.
        let deadline = started + total_budget;
        let (res, timed_out) = crate::explore::par_map(&grid, Some(deadline), |_, (m, _)| {
            use crate::explore::Model;
            m.run(&[])
        });
        let mut st = crate::explore::Stats { exhaustive: !timed_out, ..Default::default() };
        let mut seen = std::collections::HashSet::new();
        for ((m, _), r) in grid.iter().zip(res.into_iter()) {
            use crate::explore::Model;
            let r = match r {
                Some(r) => r,
                None => continue,
            };
            st.executions += 1;
            st.transitions += m.seed.len() as u64;
            if seen.insert(r.fingerprint) {
                st.states += 1;
            }
            run.outcome(&r.outcome);
            for (sig, detail) in r.violations.iter() {
                run.violation(sig, detail.clone(), json!({"model": m.name(), "history": m.describe(&[])}), m.seed.len());
            }
            if st.executions % 53 == 1 {
                run.sample(json!({"model": m.name(), "history": m.describe(&[]), "outcome": r.outcome}));
            }
        }
        if timed_out {
            st.capped = Some("wall budget hit inside the scripted grid".into());
        }
        all.push(("scripted-grid".to_owned(), st));
    }
    let n = searches.len().max(1) as u32;
    // Shallow searches first: they finish well within their share and pass the rest on to the deep ones.
    let mut searches = searches;
    searches.sort_by_key(|(_, d)| *d);
    for (i, (m, depth)) in searches.into_iter().enumerate() {
        // Unused budget of earlier searches is passed on.
        let remaining = total_budget.saturating_sub(started.elapsed());
        let share = remaining / (n - i as u32);
        let s = bfs(&m, depth, share.max(Duration::from_secs(2)), run);
        all.push((m.label.clone(), s));
    }
    merge_stats(run, &all);
    run.set("traces_validated_against_impl", json!(0));
    run.set(
        "rule",
        json!("explicit-state BFS by re-execution of the real tower over a simulated bitcoind; a state is the canonical fingerprint of (all table rows, in-memory snapshots of gatekeeper/watcher/responder/carrier, environment, reference model); transitions are executed (state,event) pairs; every explored trace is an implementation trace"),
    );
    run.assume("SimChain/SimNode model bitcoind faithfully for sendrawtransaction/getrawtransaction and the three block-source calls");
    run.assume("sqlite statement/transaction atomicity");
    run.assume("the harness bootstrap mirrors teos/src/main.rs (listener order gatekeeper, watcher, responder; 100-block responder index; 6-block locator cache)");
}

fn budget(tier: Tier, quick_s: u64, thorough_s: u64) -> Duration {
    let s = match tier {
        Tier::Quick => quick_s,
        Tier::Thorough => thorough_s,
    };
    let s = std::env::var("VERIF_BUDGET_S").ok().and_then(|v| v.parse().ok()).unwrap_or(s);
    Duration::from_secs(s)
}

// ---------------------------------------------------------------------------------------------

pub fn c07(tier: Tier) -> i32 {
    let run = Run::new("C07", "model_checking", tier);
    // Exhaustive sweep of the slot formula against max(1, ceil(n/2048)) up to the gRPC limit.
    let mut bad: Option<(usize, u32, u64)> = None;
    let mut evals = 0u64;
    let step = if tier == Tier::Quick { 1 } else { 1 };
    let limit = 4 * 1024 * 1024;
    let mut n = 0usize;
    while n <= limit {
        let got = teos_common::appointment::compute_appointment_slots(n, 2048);
        let want = crate::spec::slots_for(n);
        evals += 1;
        if got as u64 != want && bad.is_none() {
            bad = Some((n, got, want));
        }
        n += step;
    }
    run.set("formula_lengths_checked", json!(evals));
    // All mismatches, grouped.
    let mut mism: Vec<(usize, u32, u64)> = Vec::new();
    for n in 0..=limit {
        let got = teos_common::appointment::compute_appointment_slots(n, 2048);
        let want = crate::spec::slots_for(n);
        if got as u64 != want {
            if mism.len() < 5 {
                mism.push((n, got, want));
            }
        }
    }
    for (n, got, want) in mism.iter() {
        let sig = if *n == 0 {
            "formula:slots(0)=0".to_owned()
        } else {
            format!("formula:slots({n})={got}:expected={want}")
        };
        run.violation(
            &sig,
            format!("compute_appointment_slots({n}, 2048) = {got}, the statement requires {want}"),
            json!({"engine": "formula", "blob_len": n}),
            0,
        );
    }

    let sizes: Vec<(Blob, bool)> = match tier {
        Tier::Quick => vec![(Blob::Raw(0), false), (Blob::Raw(1), false), (Blob::Raw(2048), false), (Blob::Raw(2049), false), (Blob::Valid, false)],
        Tier::Thorough => vec![
            (Blob::Raw(0), false),
            (Blob::Raw(1), false),
            (Blob::Raw(2047), false),
            (Blob::Raw(2048), false),
            (Blob::Raw(2049), false),
            (Blob::Raw(4096), false),
            (Blob::Raw(4097), false),
            (Blob::Valid, false),
            (Blob::Large, false),
            (Blob::Bad, false),
        ],
    };
    let mut models = Vec::new();
    let slot_cfgs: &[u32] = if tier == Tier::Quick { &[2] } else { &[1, 2, 3] };
    for slots in slot_cfgs {
        for sd in ["S0", "S4", "S8"] {
            let mut a = Alphabet::basic();
            a.users = vec![1];
            a.disps = vec![1, 2];
            a.blobs = sizes.clone();
            a.max_registers_per_user = 2;
            a.max_adds = 3;
            a.mine_empty = false;
            a.mine_mempool = true;
            a.mine_dispute = true;
            a.advances = if sd == "S8" { vec![1] } else { vec![100] };
            a.restart = true;
            a.max_deviations = 1;
            let (depth, d4) = match tier {
                Tier::Quick => (4, 3),
                Tier::Thorough => (6, 5),
            };
            models.push((
                TowerModel {
                    label: format!("C07/slots={slots}/{sd}"),
                    cfg: cfg(*slots, 400, 6),
                    seed: seed(sd),
                    alphabet: a,
                    props: vec!["C07"],
                    probe: true,
                    forgery: None,
                },
                if sd == "S0" { depth } else { d4 },
            ));
        }
    }
    // a subscription so large that the balance comes close to the cap of the counter: a renewal that does not fit
    // is refused as a whole, nothing is credited in part
    {
        let mut a = Alphabet::basic();
        a.users = vec![1];
        a.disps = vec![1];
        a.blobs = vec![(Blob::Valid, false)];
        a.max_registers_per_user = 3;
        a.max_adds = 2;
        a.mine_empty = false;
        a.mine_mempool = false;
        a.mine_dispute = false;
        a.max_deviations = 0;
        models.push((
            TowerModel { label: "C07/slots=u32::MAX-1".into(), cfg: cfg(u32::MAX - 1, 400, 6), seed: vec![], alphabet: a, props: vec!["C07"], probe: true, forgery: None },
            4,
        ));
    }
    // slots of a tracker that is dropped because the node rejects its re-submission are forfeited, not refunded:
    // the penalty misses six confirmations while the node holds a conflicting spend instead
    {
        let mut sd = seed("S3");
        sd.extend(vec![Ev::Evict(TxName::P(1)), Ev::External(TxName::PAlt(1))]);
        for _ in 0..7 {
            sd.push(Ev::MineP(MineSel::Empty));
        }
        let mut a = Alphabet::basic();
        a.max_adds = 0;
        a.max_registers_per_user = 0;
        a.mine_dispute = false;
        a.mine_mempool = false;
        a.mine_empty = false;
        models.push((TowerModel { label: "C07/rejected-rebroadcast".into(), cfg: cfg(3, 400, 6), seed: sd, alphabet: a, props: vec!["C07"], probe: true, forgery: None }, 0));
    }
    run_models(&run, models, budget(tier, 40, 600));
    run.finish()
}

pub fn c09(tier: Tier) -> i32 {
    let run = Run::new("C09", "model_checking", tier);
    let mut cfgs = Vec::new();
    let (durs, graces): (&[u32], &[u32]) = match tier {
        Tier::Quick => (&[0, 1, 2], &[0, 1, 2]),
        Tier::Thorough => (&[0, 1, 2, 3], &[0, 1, 2]),
    };
    for d in durs {
        for g in graces {
            for s in if tier == Tier::Quick { vec![1u32] } else { vec![1u32, 2] } {
                cfgs.push(cfg(s, *d, *g));
            }
        }
    }
    // a tower whose slots per subscription are so many that the second renewal hits the cap (u32): the
    // refused renewal must leave the promised heights alone
    cfgs.push(cfg(1 << 31, 2, 1));
    // a tower whose subscriptions are so long that the second renewal reaches the end of the height range (the expiry
    // stays there): expiry + grace is then beyond any height, the user must not be purged
    cfgs.push(cfg(1, 2_000_000_000, 6));
    let mut models = Vec::new();
    for c in cfgs {
        let mut a = Alphabet::basic();
        a.users = vec![1, 2];
        a.disps = vec![1];
        a.blobs = vec![(Blob::Valid, false)];
        a.max_registers_per_user = 3;
        a.max_adds = 2;
        a.split_poll = true;
        a.mine_empty = true;
        a.mine_mempool = false;
        a.mine_dispute = true;
        a.reorgs = vec![(1, Replacement::Same), (2, Replacement::Same)];
        a.max_deviations = 1;
        a.restart = tier == Tier::Thorough;
        let depth = match tier {
            Tier::Quick => 5,
            Tier::Thorough => 7,
        };
        models.push((
            TowerModel {
                label: format!("C09/slots={}/dur={}/grace={}", c.slots, c.duration, c.grace),
                cfg: c,
                seed: vec![],
                alphabet: a,
                props: vec!["C09"],
                probe: true,
                forgery: None,
            },
            depth,
        ));
    }
    run.set("configurations", json!(models.len()));
    run_models(&run, models, budget(tier, 45, 700));
    run.finish()
}

fn c01_alphabet(tier: Tier) -> Alphabet {
    let mut a = Alphabet::basic();
    a.users = vec![1, 2];
    a.disps = if tier == Tier::Quick { vec![1] } else { vec![1, 2] };
    a.blobs = vec![
        (Blob::Valid, false),
        (Blob::Raw(40), true),
        (Blob::WrongKey, true),
        (Blob::NonTx, true),
        (Blob::Bad, true),
        (Blob::Alt, true),
        (Blob::TxPlusTrailing, true),
    ];
    if tier == Tier::Thorough {
        a.blobs.push((Blob::Large, true));
    }
    a.max_registers_per_user = 1;
    a.max_adds = 3;
    a.split_poll = true;
    a.mine_empty = true;
    a.mine_mempool = true;
    a.mine_dispute = true;
    a.mine_dispute_and_penalty = true;
    a.externals = vec![TxName::P(1)];
    a.evictions = vec![TxName::PAlt(1), TxName::P(1)];
    a.reorgs = vec![(1, Replacement::Same), (1, Replacement::Unconfirm), (2, Replacement::Delay)];
    a.restart = true;
    a.max_deviations = if tier == Tier::Quick { 1 } else { 2 };
    a
}

fn c01_models(tier: Tier, props: Vec<&'static str>) -> Vec<(TowerModel, usize)> {
    let mut models = Vec::new();
    let seeds: &[(&str, usize, usize)] = &[("S0", 5, 7), ("S1", 4, 6), ("S2", 4, 6), ("S3", 4, 5), ("S9", 4, 6), ("S10", 4, 6), ("S11", 3, 5), ("S12", 3, 5)];
    for (sd, dq, dt) in seeds {
        for txindex in if tier == Tier::Quick { vec![false] } else { vec![false, true] } {
            models.push((
                TowerModel {
                    label: format!("C01/{sd}/txindex={txindex}"),
                    cfg: TowerCfg { slots: 3, duration: 400, grace: 6, txindex },
                    seed: seed(sd),
                    alphabet: c01_alphabet(tier),
                    props: props.clone(),
                    probe: true,
                    forgery: None,
                },
                if tier == Tier::Quick { *dq } else { *dt },
            ));
        }
    }
    // The 6-block window family: dispute mined, j more blocks, then the appointment arrives.
    for j in 0..=7u32 {
        for bulk in [false, true] {
            let mut sd = vec![Ev::Register(1), Ev::MineP(MineSel::Txs(vec![TxName::D(1)]))];
            if j > 0 {
                sd.push(if bulk { Ev::AdvanceBulk(j) } else { Ev::Advance(j) });
            }
            let mut a = Alphabet::basic();
            a.blobs = vec![(Blob::Valid, false), (Blob::Raw(40), false), (Blob::Bad, false)];
            a.max_adds = 1;
            a.mine_dispute = false;
            models.push((
                TowerModel {
                    label: format!("C01/window/j={j}/bulk={bulk}"),
                    cfg: TowerCfg::default(),
                    seed: sd,
                    alphabet: a,
                    props: props.clone(),
                    probe: true,
                    forgery: None,
                },
                2,
            ));
        }
    }
    models
}

pub fn c01(tier: Tier) -> i32 {
    let run = Run::new("C01", "model_checking", tier);
    run_models(&run, c01_models(tier, vec!["C01"]), budget(tier, 45, 700));
    // Bind the in-process wiring (mirror of teos/src/main.rs) to the real teosd binary: replay the
    // conformance histories against it and compare tables, replies and submissions.
    if !crate::conform::teosd_binary().exists() {
        eprintln!("MACHINERY-ERROR: {} is missing (./check builds it)", crate::conform::teosd_binary().display());
        return 2;
    }
    let (ok, bad) = crate::conform::run_all(usize::MAX);
    run.set("traces_validated_against_impl", json!(ok));
    run.set("conformance", json!("histories replayed against the real teosd process (simulated bitcoind over HTTP JSON-RPC, requests over the public HTTP API) and compared with the in-process run: replies, users, appointments, trackers, submissions"));
    for (name, e) in bad {
        run.violation(
            &format!("conformance:teosd-differs-from-in-process-wiring:{name}"),
            format!("the real teosd binary and the harness's mirror of main.rs disagree: {e}"),
            json!({"engine": "conform", "trace": name}),
            1,
        );
    }
    run.finish()
}

pub fn c02(tier: Tier) -> i32 {
    let run = Run::new("C02", "model_checking", tier);
    let mut models = c01_models(tier, vec!["C02"]);
    // Extra: expiry/purge before the dispute is mined (owner removed => nothing may be sent).
    let mut a = c01_alphabet(tier);
    a.advances = vec![3];
    models.push((
        TowerModel {
            label: "C02/short-subscription".into(),
            cfg: TowerCfg { slots: 3, duration: 2, grace: 1, txindex: false },
            seed: vec![],
            alphabet: a,
            props: vec!["C02"],
            probe: true,
            forgery: None,
        },
        if tier == Tier::Quick { 4 } else { 6 },
    ));
    run_models(&run, models, budget(tier, 45, 700));
    run.finish()
}

pub fn c08(tier: Tier) -> i32 {
    let run = Run::new("C08", "model_checking", tier);
    let mut models = Vec::new();
    // (branching factor ~20: three to_self_delay values x five blob kinds x two users; depth 4 / 3 is what
    // a quick run completes, the thorough tier goes to 7 / 6 within its budget)
    for (sd, dq, dt) in [("S0", 4usize, 7usize), ("S1", 3, 6), ("S12", 3, 5)] {
        let mut a = Alphabet::basic();
        a.users = vec![1, 2];
        a.disps = vec![1];
        a.blobs = vec![(Blob::Valid, false), (Blob::Raw(1), false), (Blob::Raw(2049), false), (Blob::Bad, false), (Blob::Alt, false)];
        if sd == "S12" {
            // the conflicting spend goes away: a penalty the node refused a block ago is acceptable now
            a.evictions = vec![TxName::PAlt(1)];
        }
        a.tsds = vec![42, 0, u32::MAX];
        a.max_registers_per_user = 2;
        a.max_adds = 3;
        a.split_poll = true;
        a.mine_empty = true;
        a.mine_dispute = true;
        a.mine_mempool = false;
        a.reorgs = vec![(1, Replacement::Same), (2, Replacement::Unconfirm)];
        a.max_deviations = 1;
        models.push((
            TowerModel {
                label: format!("C08/{sd}"),
                cfg: cfg(3, 400, 6),
                seed: seed(sd),
                alphabet: a,
                props: vec!["C08"],
                probe: true,
                forgery: None,
            },
            if tier == Tier::Quick { dq } else { dt },
        ));
    }
run_models(&run, models, budget(tier, 34, 500));
    let (schedules, scenarios) = crate::checks_s::receipts_under_schedules(&run, tier, budget(tier, 10, 120));
    run.set("schedules_checked_for_receipt_binding", json!(schedules));
    run.set("scenarios_checked_for_receipt_binding", json!(scenarios));
    run.finish()
}

pub fn c04(tier: Tier) -> i32 {
    let run = Run::new("C04", "model_checking", tier);
    let mut models = Vec::new();
    let hows = [
        Replacement::Same,
        Replacement::Delay,
        Replacement::Unconfirm,
        Replacement::ConflictPenalty,
        Replacement::ConflictDispute,
    ];
    // Parameter grid: confirmation delay c, reorg depth d, replacement, then the road to 100.
    let depths: Vec<u8> = if tier == Tier::Quick { vec![1, 2, 3] } else { vec![1, 2, 3, 4, 5, 6, 7, 8] };
    let cs: Vec<u32> = if tier == Tier::Quick { vec![0, 1] } else { vec![0, 1, 2, 3] };
    let mut grid = 0;
    for c in cs.iter() {
        for extra in [0u32, 1, 2] {
            for d in depths.iter() {
                for how in hows.iter() {
                    for bulk in [false, true] {
                        if tier == Tier::Quick && bulk && *d > 2 {
                            continue;
                        }
                        // tracker created, penalty confirmed c blocks later, `extra` more blocks,
                        // reorg of depth d (single poll), then advance past 100 confirmations.
                        let mut sd = vec![
                            Ev::Register(1),
                            Ev::Add { user: 1, disp: 1, blob: Blob::Valid, tsd: 42 },
                            Ev::MineP(MineSel::Txs(vec![TxName::D(1)])),
                        ];
                        for _ in 0..*c {
                            sd.push(Ev::MineP(MineSel::Empty));
                        }
                        sd.push(Ev::MineP(MineSel::Mempool));
                        if extra > 0 {
                            sd.push(Ev::Advance(extra));
                        }
                        if (*d as u32) > c + extra + 2 {
                            continue;
                        }
                        sd.push(if bulk { Ev::Reorg { depth: *d, how: *how } } else { Ev::ReorgP { depth: *d, how: *how } });
                        if bulk {
                            sd.push(Ev::Mine(MineSel::Mempool));
                            sd.push(Ev::Poll);
                        } else {
                            sd.push(Ev::MineP(MineSel::Mempool));
                        }
                        sd.push(Ev::Advance(7));
                        sd.push(Ev::MineP(MineSel::Mempool));
                        sd.push(Ev::Advance(110));
                        let mut a = Alphabet::basic();
                        a.max_adds = 0;
                        a.max_registers_per_user = 0;
                        a.mine_dispute = false;
                        a.mine_mempool = false;
                        a.mine_empty = false;
                        grid += 1;
                        models.push((
                            TowerModel {
                                label: format!("C04/grid/c={c}/extra={extra}/d={d}/{how:?}/bulk={bulk}"),
                                cfg: cfg(3, 1000, 6),
                                seed: sd,
                                alphabet: a,
                                props: vec!["C04"],
                                probe: false,
                                forgery: None,
                            },
                            0,
                        ));
                    }
                }
            }
        }
    }
    // Several trackers hit by one reorg, one of them turning invalid (its penalty is replaced by a
    // conflicting spend) while the others merely lose their confirmation: each of the others must still
    // be re-submitted / re-recorded (nothing may stop at the one that disappears).
    for extra in [0u32, 1, 2] {
        for d in [1u8, 2, 3] {
            for bulk in [false, true] {
                if (d as u32) > extra + 2 {
                    continue;
                }
                let add = |u, k| Ev::Add { user: u, disp: k, blob: Blob::Valid, tsd: 42 };
                let mut sd = vec![Ev::Register(1), Ev::Register(2), add(1, 1), add(1, 2), add(1, 3), add(2, 1), add(2, 2), add(2, 3)];
                sd.push(Ev::MineP(MineSel::Txs(vec![TxName::D(1), TxName::D(2), TxName::D(3)])));
                sd.push(Ev::MineP(MineSel::Mempool));
                if extra > 0 {
                    sd.push(Ev::Advance(extra));
                }
                sd.push(if bulk { Ev::Reorg { depth: d, how: Replacement::ConflictPenalty1 } } else { Ev::ReorgP { depth: d, how: Replacement::ConflictPenalty1 } });
                if bulk {
                    sd.push(Ev::Poll);
                }
                sd.push(Ev::MineP(MineSel::Mempool));
                sd.push(Ev::Advance(7));
                sd.push(Ev::MineP(MineSel::Mempool));
                sd.push(Ev::Advance(110));
                let mut a = Alphabet::basic();
                a.max_adds = 0;
                a.max_registers_per_user = 0;
                a.mine_dispute = false;
                a.mine_mempool = false;
                a.mine_empty = false;
                grid += 1;
                models.push((
                    TowerModel {
                        label: format!("C04/grid/six-trackers-one-penalty-conflicted/extra={extra}/d={d}/bulk={bulk}"),
                        cfg: cfg(3, 1000, 6),
                        seed: sd,
                        alphabet: a,
                        props: vec!["C04"],
                        probe: false,
                        forgery: None,
                    },
                    0,
                ));
            }
        }
    }
    // Catch-up after the tower was behind (an outage, a restart): the penalty has been unconfirmed for `quiet` blocks when the
    // tower falls behind; it is confirmed `later` blocks further on; `after` more blocks follow; the tower gets all of them in
    // one poll. While it works through the early ones the node, which is ahead, says "already in chain" to a re-submission:
    // the tracker stays, is recorded as confirmed when the tower gets to that block, and completes 100 blocks later.
    let (quiets, laters): (&[u32], &[u32]) = if tier == Tier::Quick { (&[3, 4, 5], &[2, 3]) } else { (&[3, 4, 5, 6, 7], &[1, 2, 3]) };
    // (the first re-submission is due six blocks after the penalty was sent: with 3 or 4 quiet blocks it falls among the
    // blocks the tower catches up with, before the one that confirms the penalty)
    for quiet in quiets.iter().copied() {
        for later in laters.iter().copied() {
            for after in [0u32, 2] {
                for restart in [false, true] {
                    let mut sd = seed("S3");
                    for _ in 0..quiet {
                        sd.push(Ev::MineP(MineSel::Empty));
                    }
                    if restart {
                        sd.push(Ev::Restart);
                    }
                    for _ in 1..later {
                        sd.push(Ev::Mine(MineSel::Empty));
                    }
                    sd.push(Ev::Mine(MineSel::Mempool));
                    for _ in 0..after {
                        sd.push(Ev::Mine(MineSel::Empty));
                    }
                    sd.push(Ev::Poll);
                    sd.push(Ev::MineP(MineSel::Empty));
                    sd.push(Ev::Advance(105));
                    let mut a = Alphabet::basic();
                    a.max_adds = 0;
                    a.max_registers_per_user = 0;
                    a.mine_dispute = false;
                    a.mine_mempool = false;
                    a.mine_empty = false;
                    grid += 1;
                    models.push((
                        TowerModel {
                            label: format!("C04/grid/catch-up/quiet={quiet}/confirmed-{later}-later/{after}-more/restart={restart}"),
                            cfg: cfg(3, 1000, 6),
                            seed: sd,
                            alphabet: a,
                            props: vec!["C04"],
                            probe: false,
                            forgery: None,
                        },
                        0,
                    ));
                }
            }
        }
    }
    // the owner renewed (twice) before the tracker completes: the refund goes on top of whatever they hold
    for renewals in [1usize, 2] {
        let mut sd = vec![Ev::Register(1)];
        for _ in 0..renewals {
            sd.push(Ev::Register(1));
        }
        sd.extend(vec![
            Ev::Add { user: 1, disp: 1, blob: Blob::Large, tsd: 42 },
            Ev::MineP(MineSel::Txs(vec![TxName::D(1)])),
            Ev::MineP(MineSel::Mempool),
            Ev::Advance(98),
            Ev::MineP(MineSel::Empty),
            Ev::MineP(MineSel::Empty),
            Ev::MineP(MineSel::Empty),
        ]);
        let mut a = Alphabet::basic();
        a.max_adds = 0;
        a.max_registers_per_user = 0;
        a.mine_dispute = false;
        a.mine_mempool = false;
        a.mine_empty = false;
        grid += 1;
        models.push((
            TowerModel { label: format!("C04/grid/completion-after-{renewals}-renewals"), cfg: cfg(3, 1000, 6), seed: sd, alphabet: a, props: vec!["C04"], probe: false, forgery: None },
            0,
        ));
    }
    run.set("grid_points", json!(grid));
    // BFS around the tracker seeds.
    for (sd, dq, dt) in [("S3", 4usize, 6usize), ("S4", 4, 6), ("S5", 3, 5), ("S6", 4, 5), ("S8", 4, 5)] {
        let mut a = Alphabet::basic();
        a.max_adds = 0;
        a.max_registers_per_user = 0;
        a.mine_dispute = false;
        a.mine_mempool = true;
        a.mine_empty = true;
        a.split_poll = tier == Tier::Thorough;
        a.reorgs = vec![
            (1, Replacement::Same),
            (1, Replacement::Delay),
            (1, Replacement::Unconfirm),
            (1, Replacement::ConflictPenalty),
            (2, Replacement::Same),
            (2, Replacement::Unconfirm),
            (2, Replacement::ConflictDispute),
        ];
        a.advances = vec![5, 6, 93];
        a.max_deviations = 2;
        models.push((
            TowerModel {
                label: format!("C04/bfs/{sd}"),
                cfg: cfg(3, 1000, 6),
                seed: seed(sd),
                alphabet: a,
                props: vec!["C04"],
                probe: false,
                forgery: None,
            },
            if tier == Tier::Quick { dq } else { dt },
        ));
    }
    run_models(&run, models, budget(tier, 55, 700));
    run.finish()
}

pub fn c06(tier: Tier) -> i32 {
    let run = Run::new("C06", "model_checking", tier);
    let mut models = Vec::new();
    // two users sharing D1, short subscriptions so that expired users occur, an unregistered key
    for (label, c, sd, dq, dt) in [
        ("long", cfg(3, 400, 6), "S0", 4usize, 5usize),
        ("shared", cfg(3, 400, 6), "S2", 3, 4),
        ("expiring", cfg(2, 2, 3), "S0", 4, 6),
        ("responded", cfg(3, 400, 6), "S3", 3, 4),
    ] {
        let mut a = Alphabet::basic();
        a.users = vec![1, 2];
        a.disps = vec![1, 2];
        a.blobs = vec![(Blob::Valid, false), (Blob::Alt, false)];
        a.max_registers_per_user = if label == "expiring" { 2 } else { 1 };
        a.max_adds = 3;
        a.mine_empty = true;
        a.mine_mempool = false;
        a.mine_dispute = true;
        a.restart = false;
        a.max_deviations = 1;
        models.push((
            TowerModel {
                label: format!("C06/{label}/{sd}"),
                cfg: c,
                seed: seed(sd),
                alphabet: a,
                props: vec!["C06"],
                probe: true,
                forgery: Some(tier == Tier::Thorough),
            },
            if tier == Tier::Quick { dq } else { dt },
        ));
    }
    // independence through the chain: two users on one commitment where (a) the one stored first holds a blob that does
    // not decrypt, (b) both hold the very same appointment - each one's outcome (tracker, confirmation, completion,
    // refund) is their own
    for (label, u1, u2) in [("junk-first", Blob::Raw(40), Blob::Valid), ("wrong-key-first", Blob::WrongKey, Blob::Valid), ("identical", Blob::Valid, Blob::Valid)] {
        let add = |u, b| Ev::Add { user: u, disp: 1, blob: b, tsd: 42 };
        let sd = vec![
            Ev::Register(1),
            Ev::Register(2),
            add(1, u1),
            add(2, u2),
            Ev::MineP(MineSel::Txs(vec![TxName::D(1)])),
            Ev::MineP(MineSel::Mempool),
            Ev::Advance(98),
            Ev::MineP(MineSel::Empty),
            Ev::MineP(MineSel::Empty),
            Ev::MineP(MineSel::Empty),
        ];
        let mut a = Alphabet::basic();
        a.max_adds = 0;
        a.max_registers_per_user = 0;
        a.mine_dispute = false;
        a.mine_mempool = false;
        a.mine_empty = false;
        models.push((TowerModel { label: format!("C06/shared-commitment/{label}"), cfg: cfg(3, 400, 6), seed: sd, alphabet: a, props: vec!["C06"], probe: true, forgery: None }, 0));
    }
    run_models(&run, models, budget(tier, 50, 700));
    run.set("forged_requests", json!(crate::tmodel::FORGED_REQUESTS.load(std::sync::atomic::Ordering::Relaxed)));
    run.assume("a mutated signature never recovers to a registered key by chance (probability ~2^-250)");
    run.finish()
}

/// The sequential half of C11: no history makes a handler or the chain loop panic.
pub fn c11_sequential(run: &Run, tier: Tier, budget_s: u64) {
    let mut models = c01_models(tier, vec!["C11"]);
    if tier == Tier::Quick {
        // C01 and C02 run these models to their full depth with the same panic detectors; here one level
        // less, so that the lifecycle family and the schedules fit in the quick budget
        for (_, d) in models.iter_mut() {
            if *d > 2 {
                *d -= 1;
            }
        }
    }
    let add = |u, k, b| Ev::Add { user: u, disp: k, blob: b, tsd: 42 };
    let mine = |txs: Vec<TxName>| Ev::MineP(MineSel::Txs(txs));
    // resubmission of an appointment in every lifecycle state
    let lifecycle: Vec<(&str, TowerCfg, Vec<Ev>)> = vec![
        ("watched", cfg(3, 400, 6), seed("S1")),
        ("responded-mempool", cfg(3, 400, 6), seed("S3")),
        ("responded-confirmed", cfg(3, 400, 6), seed("S4")),
        ("completed", cfg(3, 400, 6), {
            let mut s = seed("S5");
            s.push(Ev::Advance(2));
            s
        }),
        ("dropped-invalid", cfg(3, 400, 6), vec![Ev::Register(1), add(1, 1, Blob::Raw(40)), mine(vec![TxName::D(1)])]),
        ("dropped-refused", cfg(3, 400, 6), vec![Ev::Register(1), add(1, 1, Blob::Bad), mine(vec![TxName::D(1)])]),
        ("penalty-already-in-chain", cfg(3, 400, 6), vec![Ev::Register(1), add(1, 1, Blob::Valid), mine(vec![TxName::D(1), TxName::P(1)])]),
        ("owner-expired", cfg(3, 2, 3), vec![Ev::Register(1), add(1, 1, Blob::Valid), Ev::Advance(2)]),
        ("owner-purged", cfg(3, 2, 1), vec![Ev::Register(1), add(1, 1, Blob::Valid), Ev::Advance(3)]),
        ("stale-unconfirmed-then-confirmed-ahead", cfg(3, 400, 6), {
            // tracker unconfirmed for 6 blocks, penalty confirmed in the block after: one poll
            let mut s = seed("S3");
            for _ in 0..5 {
                s.push(Ev::Mine(MineSel::Empty));
            }
            s.push(Ev::Mine(MineSel::Mempool));
            s
        }),
    ];
    for (label, c, sd) in lifecycle {
        let mut a = Alphabet::basic();
        a.users = vec![1, 2];
        a.disps = vec![1];
        a.blobs = vec![(Blob::Valid, false), (Blob::Alt, false), (Blob::Raw(40), false), (Blob::Raw(15), false), (Blob::Bad, false), (Blob::Large, false)];
        a.max_registers_per_user = 2;
        a.max_adds = 6;
        a.split_poll = true;
        a.mine_empty = true;
        a.mine_mempool = true;
        a.mine_dispute = true;
        a.mine_dispute_and_penalty = true;
        a.reorgs = vec![(1, Replacement::Same), (1, Replacement::Unconfirm), (2, Replacement::ConflictPenalty)];
        a.bulk_advances = vec![7];
        a.restart = true;
        a.max_deviations = 1;
        models.push((
            TowerModel { label: format!("C11/lifecycle/{label}"), cfg: c, seed: sd, alphabet: a, props: vec!["C11"], probe: true, forgery: None },
            if tier == Tier::Quick { 2 } else { 4 },
        ));
    }
    run_models(run, models, Duration::from_secs(budget_s));
}
