//! Evidence files, violations, replay files and the known-findings list.

use std::collections::{BTreeMap, BTreeSet};
use std::path::PathBuf;
use std::sync::Mutex;
use std::time::Instant;

use serde_json::{json, Value};

pub fn verif_dir() -> PathBuf {
    if let Ok(d) = std::env::var("VERIF_DIR") {
        return PathBuf::from(d);
    }
    // The binary lives in <verif>/harness/target/debug/verif
    let exe = std::env::current_exe().unwrap();
    let mut p = exe.as_path();
    while let Some(parent) = p.parent() {
        if parent.join("properties.jsonl").is_file() {
            return parent.to_path_buf();
        }
        p = parent;
    }
    PathBuf::from("/verif")
}

#[derive(Clone, Copy, Debug, PartialEq, Eq)]
pub enum Tier {
    Quick,
    Thorough,
}

impl Tier {
    pub fn name(&self) -> &'static str {
        match self {
            Tier::Quick => "quick",
            Tier::Thorough => "thorough",
        }
    }
}

#[derive(Clone, Debug)]
pub struct Violation {
    pub signature: String,
    pub detail: String,
    pub replay: Value,
    /// Smaller is simpler (used to keep the shortest counterexample per signature).
    pub size: usize,
}

struct Inner {
    violations: BTreeMap<String, Violation>,
    occurrences: BTreeMap<String, u64>,
    samples: Vec<Value>,
    outcomes: BTreeSet<String>,
}

pub struct Run {
    pub property: String,
    pub level: &'static str,
    pub tier: Tier,
    pub seed: u64,
    start: Instant,
    inner: Mutex<Inner>,
    pub coverage: Mutex<serde_json::Map<String, Value>>,
    pub assumptions: Mutex<Vec<String>>,
    known: Vec<(String, String)>,
}

pub struct Args {
    pub tier: Tier,
    pub replay: Option<PathBuf>,
    pub rest: Vec<String>,
}

pub fn parse_args(args: &[String]) -> Args {
    let mut tier = match std::env::var("VERIF_TIER").ok().as_deref() {
        Some("thorough") => Tier::Thorough,
        _ => Tier::Quick,
    };
    let mut replay = None;
    let mut rest = Vec::new();
    let mut i = 0;
    while i < args.len() {
        match args[i].as_str() {
            "--tier" => {
                i += 1;
                tier = if args.get(i).map(|s| s.as_str()) == Some("thorough") {
                    Tier::Thorough
                } else {
                    Tier::Quick
                };
            }
            "--replay" => {
                i += 1;
                replay = args.get(i).map(PathBuf::from);
            }
            other => rest.push(other.to_owned()),
        }
        i += 1;
    }
    Args { tier, replay, rest }
}

impl Run {
    pub fn new(property: &str, level: &'static str, tier: Tier) -> Run {
        let seed = std::env::var("VERIF_SEED")
            .ok()
            .and_then(|s| s.parse::<u64>().ok())
            .unwrap_or(0);
        let mut known = Vec::new();
        let kf = verif_dir().join("known_findings.json");
        if let Ok(s) = std::fs::read_to_string(&kf) {
            if let Ok(v) = serde_json::from_str::<Value>(&s) {
                for f in v["findings"].as_array().cloned().unwrap_or_default() {
                    if f["property"].as_str() == Some(property) {
                        known.push((
                            f["signature"].as_str().unwrap_or("").to_owned(),
                            f["what"].as_str().unwrap_or("").to_owned(),
                        ));
                    }
                }
            }
        }
        Run {
            property: property.to_owned(),
            level,
            tier,
            seed,
            start: Instant::now(),
            inner: Mutex::new(Inner {
                violations: BTreeMap::new(),
                occurrences: BTreeMap::new(),
                samples: Vec::new(),
                outcomes: BTreeSet::new(),
            }),
            coverage: Mutex::new(serde_json::Map::new()),
            assumptions: Mutex::new(Vec::new()),
            known,
        }
    }

    pub fn elapsed(&self) -> f64 {
        self.start.elapsed().as_secs_f64()
    }

    pub fn is_known(&self, signature: &str) -> bool {
        self.known.iter().any(|(s, _)| s == signature)
    }

    pub fn violation(&self, signature: &str, detail: String, replay: Value, size: usize) {
        let mut g = self.inner.lock().unwrap();
        *g.occurrences.entry(signature.to_owned()).or_insert(0) += 1;
        let better = g
            .violations
            .get(signature)
            .map_or(true, |v| (size, &detail) < (v.size, &v.detail));
        if better {
            g.violations.insert(
                signature.to_owned(),
                Violation {
                    signature: signature.to_owned(),
                    detail,
                    replay,
                    size,
                },
            );
        }
    }

    pub fn sample(&self, v: Value) {
        let mut g = self.inner.lock().unwrap();
        if g.samples.len() < 12 {
            g.samples.push(v);
        }
    }

    pub fn outcome(&self, tag: &str) {
        let mut g = self.inner.lock().unwrap();
        if g.outcomes.len() < 100_000 {
            g.outcomes.insert(tag.to_owned());
        }
    }

    pub fn set(&self, key: &str, v: Value) {
        self.coverage.lock().unwrap().insert(key.to_owned(), v);
    }

    pub fn add(&self, key: &str, n: u64) {
        let mut c = self.coverage.lock().unwrap();
        let cur = c.get(key).and_then(|v| v.as_u64()).unwrap_or(0);
        c.insert(key.to_owned(), json!(cur + n));
    }

    pub fn assume(&self, s: &str) {
        self.assumptions.lock().unwrap().push(s.to_owned());
    }

    /// Writes evidence + replay files, prints verdict lines, returns the process exit code.
    pub fn finish(self) -> i32 {
        let dir = verif_dir();
        let g = self.inner.into_inner().unwrap();
        let _ = std::fs::create_dir_all(dir.join("evidence"));
        let _ = std::fs::create_dir_all(dir.join("replays"));
        let mut new_violations = 0;
        let mut known_hits = Vec::new();
        let mut n = 0;
        let mut listed = Vec::new();
        for (sig, v) in g.violations.iter() {
            let known = self.known.iter().find(|(s, _)| s == sig);
            let occ = g.occurrences.get(sig).copied().unwrap_or(1);
            if let Some((_, what)) = known {
                println!("KNOWN-FINDING: property={} {} [{}] ({} occurrences)", self.property, what, sig, occ);
                known_hits.push(json!({"signature": sig, "occurrences": occ}));
            } else {
                n += 1;
                let path = dir.join("replays").join(format!("{}-{}.json", self.property, n));
                let body = json!({
                    "property": self.property,
                    "signature": sig,
                    "detail": v.detail,
                    "occurrences": occ,
                    "replay": v.replay,
                });
                let _ = std::fs::write(&path, serde_json::to_string_pretty(&body).unwrap());
                println!("VIOLATION property={} replay={}", self.property, path.display());
                println!("  signature: {sig}");
                println!("  detail: {}", v.detail);
                new_violations += 1;
                listed.push(json!({"signature": sig, "replay": path.display().to_string(), "occurrences": occ}));
            }
        }
        let mut coverage = self.coverage.into_inner().unwrap();
        if !coverage.contains_key("samples") {
            coverage.insert("samples".into(), Value::Array(g.samples));
        }
        coverage.insert("distinct_outcomes".into(), json!(g.outcomes.len()));
        coverage.insert("known_findings_hit".into(), Value::Array(known_hits));
        coverage.insert("violations_listed".into(), Value::Array(listed));
        let ev = json!({
            "property_id": self.property,
            "tier": self.tier.name(),
            "seed": self.seed,
            "level": self.level,
            "coverage": Value::Object(coverage),
            "assumptions": self.assumptions.into_inner().unwrap(),
            "wall_s": (self.start.elapsed().as_secs_f64() * 100.0).round() / 100.0,
            "violations": new_violations,
        });
        let path = dir.join("evidence").join(format!("{}.json", self.property));
        std::fs::write(&path, serde_json::to_string_pretty(&ev).unwrap()).unwrap();
        if new_violations > 0 {
            1
        } else {
            println!(
                "OK property={} tier={} wall_s={:.1}",
                self.property,
                self.tier.name(),
                self.start.elapsed().as_secs_f64()
            );
            0
        }
    }
}
