//! Reference oracles for the tower (engine T), written from the property statements.
//!
//! `Spec` follows every step of a history through the *observations* of that step (API replies,
//! blocks delivered to the listeners, RPCs with the node's verdicts, database rows before/after)
//! and predicts what the statements require. Node verdicts are read from the log (the node is the
//! harness's own model, so they are ground truth), the tower's internal cadence is never predicted.

use std::collections::{BTreeMap, VecDeque};

use bitcoin::{BlockHash, Txid};
use teos_common::appointment::Locator;
use teos_common::cryptography;
use teos_common::receipts::{AppointmentReceipt, RegistrationReceipt};

use crate::sim::{build_tx, tx_label, txid_of, TxName};
use crate::tower::{user_keys, uuid_hex, ApiErr, TowerCfg};
use crate::world::{ApiOutcome, Ev, StepObs, Trace, World};

#[derive(Clone, Debug)]
pub struct Viol {
    /// Properties this violation is evidence against.
    pub props: &'static [&'static str],
    pub sig: String,
    pub detail: String,
}

pub fn slots_for(len: usize) -> u64 {
    std::cmp::max(1, (len as u64 + 2047) / 2048)
}

#[derive(Clone, Debug, PartialEq, Eq)]
pub enum AState {
    Watched,
    Responded { penalty: Txid },
    /// (No longer produced: "already in chain" (-27) at the first submission used to admit both
    /// "still watched" and "tracked"; since fix 3eaadf0 the tower tracks, which is what C03/C04 need.)
    Either { penalty: Txid },
}

#[derive(Clone, Debug)]
pub struct SAppt {
    pub blob: Vec<u8>,
    pub tsd: u32,
    pub sig: String,
    pub start_block: u32,
    pub state: AState,
    /// Height of the last block during which the penalty was (re-)submitted / seen confirmed.
    pub last_sent_h: u32,
    /// The block that confirmed the penalty was disconnected; re-submission is due at next connect.
    pub resend_due: bool,
}

#[derive(Clone, Debug)]
pub struct SUser {
    pub start: u32,
    pub expiry: u32,
    pub granted: u64,
    pub forfeited: u64,
}

#[derive(Clone)]
pub struct Spec {
    pub cfg: TowerCfg,
    pub height: u32,
    pub tip: BlockHash,
    pub recent: VecDeque<BlockHash>,
    /// The (at most) 100 blocks the Responder's index should hold, by the same list semantics.
    pub recent100: VecDeque<BlockHash>,
    pub users: BTreeMap<u8, SUser>,
    pub appts: BTreeMap<(u8, u8), SAppt>,
    pub last_event_was_disconnect: bool,
    /// Verdicts the node gave on submissions since the last connected block (the carrier answers
    /// repeated submissions of the same transaction from these until the next block).
    pub receipts: BTreeMap<Txid, &'static str>,
    /// Set when the spec can no longer follow (after a reported violation).
    pub lost: bool,
    /// Whether the recent-block look-ups (C19) are compared after every step. Off in the checks of other
    /// properties: there the *consequences* of a wrong look-up are what their oracles must see (a violation
    /// ends the exploration of its branch).
    pub check_recent_blocks: bool,
}

const ALL_T: &[&str] = &["C01", "C02", "C03", "C04", "C06", "C07", "C08", "C09", "C11"];

/// What the blob decrypts to under its dispute's id, as known from how the harness made it (the listed blob kinds);
/// only a blob of unknown make falls back on the implementation's `decrypt`.
fn spec_decrypt(k: u8, blob: &[u8], d_txid: &Txid) -> Result<Txid, ()> {
    use crate::world::Blob;
    let mut kinds = vec![Blob::Valid, Blob::Alt, Blob::Large, Blob::Bad, Blob::WrongKey, Blob::NonTx, Blob::TxPlusTrailing];
    if blob.len() <= u16::MAX as usize {
        kinds.push(Blob::Raw(blob.len() as u16));
    }
    for kind in kinds {
        if crate::world::make_blob(k, kind) == blob {
            return crate::world::expected_plain(k, kind).ok_or(());
        }
    }
    cryptography::decrypt(blob, d_txid).map(|p| p.compute_txid()).map_err(|_| ())
}

fn locator_of(disp: u8) -> Locator {
    Locator::new(txid_of(TxName::D(disp)))
}

fn disp_of_locator_hex(hexloc: &str) -> Option<u8> {
    (1..=3u8).find(|k| hex::encode(locator_of(*k).to_vec()) == hexloc)
}

fn user_of_hex(hexid: &str) -> Option<u8> {
    (1..=3u8).find(|u| user_keys(*u).hex() == hexid)
}

impl Spec {
    pub fn new(w: &World) -> Spec {
        let mut s = Spec {
            cfg: w.cfg,
            height: 0,
            tip: w.env.lock().tip,
            recent: VecDeque::new(),
            recent100: VecDeque::new(),
            users: BTreeMap::new(),
            appts: BTreeMap::new(),
            last_event_was_disconnect: false,
            receipts: BTreeMap::new(),
            lost: false,
            check_recent_blocks: false,
        };
        let tip = w.env.lock().tip;
        s.reset_chain_view(w, tip);
        s
    }

    /// The tower (re)booted with `tip` as its starting block: it indexes the 6 blocks ending there.
    fn reset_chain_view(&mut self, w: &World, tip: BlockHash) {
        let env = w.env.lock();
        let mut cur = tip;
        let mut v = VecDeque::new();
        for _ in 0..6 {
            let e = env.entry(&cur).unwrap();
            v.push_front(cur);
            cur = e.block.header.prev_blockhash;
        }
        let mut cur = tip;
        let mut v100 = VecDeque::new();
        for _ in 0..100 {
            let e = env.entry(&cur).unwrap();
            v100.push_front(cur);
            cur = e.block.header.prev_blockhash;
        }
        self.recent100 = v100;
        self.height = env.entry(&tip).unwrap().height;
        self.tip = tip;
        self.recent = v;
        self.last_event_was_disconnect = false;
        self.receipts.clear();
        for a in self.appts.values_mut() {
            a.resend_due = false;
        }
    }

    pub fn canonical(&self) -> String {
        let mut s = format!("h={} lost={} led={} rc={:?} ", self.height, self.lost, self.last_event_was_disconnect, self.receipts.iter().map(|(k, v)| (tx_label(k), *v)).collect::<Vec<_>>());
        for (u, i) in &self.users {
            s.push_str(&format!("u{u}:{}/{}/{}/{};", i.start, i.expiry, i.granted, i.forfeited));
        }
        for ((u, k), a) in &self.appts {
            s.push_str(&format!(
                "a{u}.{k}:{}:{}:{}:{:?}:{}:{};",
                crate::tower::fnv(&a.blob),
                a.tsd,
                a.start_block,
                a.state,
                a.last_sent_h,
                a.resend_due
            ));
        }
        s
    }

    fn purge_height(&self, u: &SUser) -> u64 {
        u.expiry as u64 + self.cfg.grace as u64
    }

    fn remove_user(&mut self, u: u8) {
        self.users.remove(&u);
        self.appts.retain(|(uu, _), _| *uu != u);
    }

    /// Was `txid` confirmed, on the chain the tower has processed, within its last 100 blocks?
    fn in_tower_index(&self, w: &World, txid: &Txid) -> bool {
        let env = w.env.lock();
        match env.confirmation_on_branch(txid, &self.tip) {
            Some((_, h)) => h <= self.height && h + 100 > self.height,
            None => false,
        }
    }

    fn is_ancestor(env: &crate::sim::SimChain, anc: &BlockHash, anc_h: u32, tip: &BlockHash) -> bool {
        let mut cur = *tip;
        loop {
            let e = match env.entry(&cur) {
                Some(e) => e,
                None => return false,
            };
            if e.height < anc_h {
                return false;
            }
            if e.height == anc_h {
                return cur == *anc;
            }
            cur = e.block.header.prev_blockhash;
        }
    }

    /// Processes one step. Returns the violations it evidences.
    pub fn step(&mut self, w: &World, obs: &StepObs) -> Vec<Viol> {
        let mut out = Vec::new();
        if let Some(p) = &obs.panic {
            let (msg, loc) = match p.rfind(" @") {
                Some(i) => (&p[..i], &p[i + 2..]),
                None => (p.as_str(), ""),
            };
            let file = loc.split(':').next().unwrap_or("");
            let msg: String = msg.chars().take(90).collect();
            out.push(Viol {
                props: ALL_T,
                sig: format!("panic:{file}:{msg}:during:{}", ev_kind(&obs.ev)),
                detail: format!("tower code panicked during {:?}: {p}", obs.ev),
            });
            self.lost = true;
            return out;
        }
        if let Some(e) = &obs.boot_error {
            out.push(Viol {
                props: &["C03", "C11"],
                sig: format!("boot-failed:{}", e.chars().take(80).collect::<String>()),
                detail: format!("restart failed: {e}"),
            });
            self.lost = true;
            return out;
        }
        if self.lost {
            return out;
        }

        match &obs.ev {
            Ev::Register(u) => self.on_register(*u, obs, w, &mut out),
            Ev::Add { user, disp, .. } => self.on_add(*user, *disp, obs, w, &mut out),
            Ev::Restart => {
                let tip = obs
                    .db_before
                    .last_known_block
                    .unwrap_or_else(|| self.boot_tip_without_lkb(w, obs));
                self.reset_chain_view(w, tip);
                self.on_chain_events(obs, w, &mut out);
            }
            _ => self.on_chain_events(obs, w, &mut out),
        }
        // Remember the node's verdicts on submissions (per block interval).
        for t in obs.trace.iter() {
            match t {
                Trace::Connect(..) => self.receipts.clear(),
                Trace::Rpc(r) if r.method == "sendrawtransaction" => {
                    if let Some(txid) = r.txid {
                        let v = match r.verdict.as_str() {
                            "ok" | "ok:mempool" => "accepted",
                            "err:-27" => "inchain",
                            "transport" => continue,
                            _ => "rejected",
                        };
                        self.receipts.insert(txid, v);
                    }
                }
                _ => {}
            }
        }
        // (a Connect clears at its start here, the carrier clears at the end of the block: the sends
        // made while that block was handled must not survive it)
        if obs.trace.iter().any(|t| matches!(t, Trace::Connect(..))) {
            self.receipts.clear();
        }
        // API steps must not move the chain view.
        if matches!(obs.ev, Ev::Register(_) | Ev::Add { .. })
            && obs.trace.iter().any(|t| !matches!(t, Trace::Rpc(_)))
        {
            out.push(Viol {
                props: ALL_T,
                sig: "harness:chain-event-during-request".into(),
                detail: "listener event during an API request".into(),
            });
        }
        self.compare_db(obs, w, &mut out);
        if self.check_recent_blocks {
            self.compare_recent_blocks(w, &mut out);
        }
        if !out.is_empty() {
            self.lost = true;
        }
        out
    }

    /// C19 on the live tower: the Watcher's locator cache and the Responder's transaction index hold
    /// exactly the last 6 / 100 blocks delivered (and not disconnected since), with exactly their
    /// transactions, and report the height of the last held block.
    fn compare_recent_blocks(&self, w: &World, out: &mut Vec<Viol>) {
        let t = match (&w.tower, w.dead) {
            (Some(t), false) => t,
            _ => return,
        };
        let snaps = std::panic::catch_unwind(std::panic::AssertUnwindSafe(|| (t.watcher.verif_snapshot(), t.responder.verif_snapshot())));
        let (ws, rs) = match snaps {
            Ok(x) => x,
            Err(_) => return, // poisoned mutex: reported by the liveness oracles
        };
        let env = w.env.lock();
        for (what, snap, expected, by_locator) in [("locator-cache", &ws, &self.recent, true), ("tx-index", &rs, &self.recent100, false)] {
            let body = match snap.find("blocks=[").and_then(|i| snap[i + 8..].find("] index=").map(|j| &snap[i + 8..i + 8 + j])) {
                Some(b) => b,
                None => continue,
            };
            let held: Vec<(String, String)> = body.split(';').filter(|e| e.len() > 64).map(|e| (e[..64].to_owned(), e[65..].to_owned())).collect();
            let want: Vec<String> = expected.iter().map(|h| h.to_string()).collect();
            let got: Vec<String> = held.iter().map(|(h, _)| h.clone()).collect();
            if got != want {
                let h = |v: &Vec<String>| v.iter().map(|x| env.entry(&x.parse().unwrap()).map(|e| e.height.to_string()).unwrap_or_else(|| "?".into())).collect::<Vec<_>>().join(",");
                out.push(Viol {
                    props: &["C19"],
                    sig: format!("recent-blocks:{what}:holds-other-blocks-than-the-last-{}-of-the-active-chain", if by_locator { 6 } else { 100 }),
                    detail: format!("{what} holds blocks at heights [{}] ({} blocks), expected [{}] ({} blocks)", h(&got), got.len(), h(&want), want.len()),
                });
                continue;
            }
            for (hash, keys) in held.iter() {
                let e = match env.entry(&hash.parse().unwrap()) {
                    Some(e) => e,
                    None => continue,
                };
                let mut want_keys: Vec<String> = e
                    .block
                    .txdata
                    .iter()
                    .map(|tx| if by_locator { format!("{:?}", Locator::new(tx.compute_txid())) } else { format!("{:?}", tx.compute_txid()) })
                    .collect();
                want_keys.sort();
                want_keys.dedup();
                if *keys != format!("{want_keys:?}") {
                    out.push(Viol {
                        props: &["C19"],
                        sig: format!("recent-blocks:{what}:wrong-transactions-for-a-held-block"),
                        detail: format!("{what}: block at height {} maps to {keys}, its transactions are {want_keys:?}", e.height),
                    });
                    break;
                }
            }
            // every key maps to the right value (its block, resp. the transaction itself), nothing else is indexed
            fn digest(s: &str) -> u64 {
                s.bytes().fold(0xcbf29ce484222325u64, |h, b| (h ^ b as u64).wrapping_mul(0x100000001b3))
            }
            let mut want_index: Vec<String> = Vec::new();
            for hash in expected.iter() {
                if let Some(e) = env.entry(hash) {
                    for tx in e.block.txdata.iter() {
                        want_index.push(if by_locator {
                            format!("{:?}={:016x}", Locator::new(tx.compute_txid()), digest(&format!("{tx:?}")))
                        } else {
                            format!("{:?}={:016x}", tx.compute_txid(), digest(&format!("{:?}", e.hash)))
                        });
                    }
                }
            }
            want_index.sort();
            want_index.dedup();
            if let Some(i) = snap.find("] index=") {
                let rest = &snap[i + 8..];
                if let Some(j) = rest.find(" dangling_blocks=") {
                    if rest[..j] != format!("{want_index:?}") {
                        out.push(Viol {
                            props: &["C19"],
                            sig: format!("recent-blocks:{what}:a-key-maps-to-the-wrong-value-or-is-missing-or-extra"),
                            detail: format!("{what}: index is {} expected {want_index:?}", &rest[..j]),
                        });
                    }
                }
            }
            let tip_field: Option<u32> = snap.find("tip=").and_then(|i| snap[i + 4..].split(' ').next().and_then(|x| x.parse().ok()));
            let want_tip = expected.back().and_then(|h| env.entry(h)).map(|e| e.height);
            if let (Some(a), Some(b)) = (tip_field, want_tip) {
                if a != b {
                    out.push(Viol {
                        props: &["C19"],
                        sig: format!("recent-blocks:{what}:height-off-by={}", a as i64 - b as i64),
                        detail: format!("{what} says its last block is at height {a}, it is at {b}"),
                    });
                }
            }
        }
    }

    fn boot_tip_without_lkb(&self, w: &World, obs: &StepObs) -> BlockHash {
        // No last known block stored: the tower starts from the node's best tip and there is
        // nothing to deliver.
        let _ = obs;
        w.env.lock().tip
    }

    // ---- register -------------------------------------------------------------------------

    fn on_register(&mut self, u: u8, obs: &StepObs, w: &World, out: &mut Vec<Viol>) {
        let keys = user_keys(u);
        let reply = match &obs.api {
            Some(ApiOutcome::Register(r)) => r,
            _ => return,
        };
        let before = obs.db_before.users.get(&keys.hex()).copied();
        let h = self.height;
        let (exp_slots, exp_start, exp_expiry): (u64, u32, u32) = match self.users.get(&u) {
            None => (self.cfg.slots as u64, h, h.wrapping_add(self.cfg.duration)),
            Some(su) => (
                before.map_or(0, |b| b.0 as u64) + self.cfg.slots as u64,
                su.start,
                su.expiry.checked_add(self.cfg.duration).unwrap_or(u32::MAX),
            ),
        };
        match reply {
            Ok(r) => {
                if exp_slots > u32::MAX as u64 {
                    out.push(Viol {
                        props: &["C07", "C09"],
                        sig: "register:accepted-beyond-max-slots".into(),
                        detail: format!("{r:?}"),
                    });
                    return;
                }
                if (r.available_slots as u64, r.subscription_start, r.subscription_expiry)
                    != (exp_slots, exp_start, exp_expiry)
                {
                    out.push(Viol {
                        props: &["C09", "C07", "C08"],
                        sig: format!(
                            "register:reply-mismatch:{}",
                            if self.users.contains_key(&u) { "renewal" } else { "new" }
                        ),
                        detail: format!(
                            "register(U{u}) at height {h}: reply (slots,start,expiry)=({},{},{}) expected ({exp_slots},{exp_start},{exp_expiry})",
                            r.available_slots, r.subscription_start, r.subscription_expiry
                        ),
                    });
                }
                let receipt = RegistrationReceipt::with_signature(
                    keys.id(),
                    r.available_slots,
                    r.subscription_start,
                    r.subscription_expiry,
                    r.subscription_signature.clone(),
                );
                let tower_id = w.tower.as_ref().unwrap().tower_id;
                if !receipt.verify(&tower_id) || r.user_id != keys.id().to_vec() {
                    out.push(Viol {
                        props: &["C08"],
                        sig: "register:receipt-does-not-verify".into(),
                        detail: format!("registration receipt for U{u} does not verify under the tower id: {r:?}"),
                    });
                }
                let row = obs.db_after.users.get(&keys.hex()).copied();
                if row != Some((r.available_slots, r.subscription_start, r.subscription_expiry)) {
                    out.push(Viol {
                        props: &["C08", "C07", "C09"],
                        sig: "register:reply-differs-from-persisted".into(),
                        detail: format!("reply {r:?} vs users row {row:?}"),
                    });
                }
                let e = self.users.entry(u).or_insert(SUser {
                    start: exp_start,
                    expiry: exp_expiry,
                    granted: 0,
                    forfeited: 0,
                });
                e.expiry = exp_expiry;
                e.granted += self.cfg.slots as u64;
            }
            Err(e) => {
                if !(exp_slots > u32::MAX as u64 && e.code == tonic::Code::ResourceExhausted) {
                    out.push(Viol {
                        props: &["C09", "C11"],
                        sig: format!("register:refused:{:?}", e.code),
                        detail: format!("register(U{u}) refused: {e:?}"),
                    });
                }
            }
        }
    }

    // ---- add_appointment ------------------------------------------------------------------

    fn on_add(&mut self, u: u8, k: u8, obs: &StepObs, w: &World, out: &mut Vec<Viol>) {
        let keys = user_keys(u);
        let reply = match &obs.api {
            Some(ApiOutcome::Add(r)) => r,
            _ => return,
        };
        let appt = obs.appt.as_ref().unwrap();
        let sig = obs.user_sig.as_ref().unwrap();
        let h = self.height;
        let uuid = uuid_hex(&appt.locator, &keys.id());
        let new_slots = slots_for(appt.encrypted_blob.len());

        let expect_err = |out: &mut Vec<Viol>, what: &str, code: tonic::Code, needle: Option<String>| {
            match reply {
                Err(ApiErr { code: c, msg }) if *c == code && needle.as_ref().map_or(true, |n| msg.contains(n)) => {}
                other => out.push(Viol {
                    props: &["C06", "C09", "C07"],
                    sig: format!("add:expected-{what}"),
                    detail: format!("add(U{u},D{k}) at height {h}: expected {what} ({code:?} {needle:?}), got {other:?}"),
                }),
            }
            // Nothing may change on a refusal.
            if obs.db_before != obs.db_after {
                out.push(Viol {
                    props: &["C06", "C07", "C15"],
                    sig: format!("add:refused-but-state-changed:{what}"),
                    detail: format!("add(U{u},D{k}) refused ({what}) but tables changed"),
                });
            }
        };

        let su = match self.users.get(&u) {
            None => {
                expect_err(out, "unauthenticated", tonic::Code::Unauthenticated, None);
                return;
            }
            Some(su) => su.clone(),
        };
        if h >= su.expiry {
            expect_err(
                out,
                "subscription-expired",
                tonic::Code::Unauthenticated,
                Some(format!("expired at {}", su.expiry)),
            );
            return;
        }
        if obs.db_before.trackers.contains_key(&uuid) {
            expect_err(out, "already-triggered", tonic::Code::AlreadyExists, None);
            return;
        }
        let avail_before = obs.db_before.users.get(&keys.hex()).map_or(0, |r| r.0) as i64;
        let old_slots = obs
            .db_before
            .appointments
            .get(&uuid)
            .map_or(0, |r| slots_for(r.blob.len())) as i64;
        let need = new_slots as i64 - old_slots;
        if need > avail_before {
            expect_err(out, "not-enough-slots", tonic::Code::Unauthenticated, None);
            return;
        }
        let r = match reply {
            Ok(r) => r,
            Err(e) => {
                out.push(Viol {
                    props: &["C07", "C06", "C11"],
                    sig: format!("add:refused-valid-request:{:?}", e.code),
                    detail: format!("add(U{u},D{k}) should be accepted (need {need} <= available {avail_before}) but got {e:?}"),
                });
                return;
            }
        };
        // ---- accepted: receipt (C08), balance (C07)
        let tower_id = w.tower.as_ref().unwrap().tower_id;
        let receipt = AppointmentReceipt::with_signature(sig.clone(), r.start_block, r.signature.clone());
        if !receipt.verify(&tower_id) {
            out.push(Viol {
                props: &["C08"],
                sig: "add:receipt-does-not-verify".into(),
                detail: format!("appointment receipt does not verify under the tower id: {r:?}"),
            });
        }
        if r.start_block != h || r.locator != appt.locator.to_vec() {
            out.push(Viol {
                props: &["C08"],
                sig: "add:receipt-start-block".into(),
                detail: format!("receipt start_block {} but tower height at acceptance {h}", r.start_block),
            });
        }
        let blob_len = appt.encrypted_blob.len();
        if r.available_slots as i64 != avail_before - need {
            out.push(Viol {
                props: &["C07"],
                sig: format!(
                    "add:charge-mismatch:blob_len={}:old_slots={}:charged={}:expected={}",
                    blob_len,
                    old_slots,
                    avail_before - r.available_slots as i64,
                    need
                ),
                detail: format!(
                    "add(U{u},D{k}) blob of {blob_len} bytes: available {avail_before} -> {} (charged {}), statement requires {need}",
                    r.available_slots,
                    avail_before - r.available_slots as i64
                ),
            });
        }
        let row = obs.db_after.users.get(&keys.hex()).copied();
        if row.map(|x| (x.0, x.2)) != Some((r.available_slots, r.subscription_expiry)) || r.subscription_expiry != su.expiry {
            out.push(Viol {
                props: &["C07", "C08"],
                sig: "add:reply-differs-from-persisted".into(),
                detail: format!("reply slots/expiry ({},{}) vs users row {row:?} vs spec expiry {}", r.available_slots, r.subscription_expiry, su.expiry),
            });
        }

        // ---- triggered at acceptance? (dispute in one of the blocks the cache holds)
        let d_tx = build_tx(TxName::D(k));
        let d_txid = d_tx.compute_txid();
        let triggered = {
            let env = w.env.lock();
            self.recent.iter().any(|bh| {
                env.entry(bh)
                    .map_or(false, |e| e.block.txdata.iter().any(|t| t.compute_txid() == d_txid))
            })
        };
        let mut new = SAppt {
            blob: appt.encrypted_blob.clone(),
            tsd: appt.to_self_delay,
            sig: sig.clone(),
            start_block: h,
            state: AState::Watched,
            last_sent_h: h,
            resend_due: false,
        };
        let rpcs: Vec<&crate::sim::RpcRecord> = obs.rpcs();
        if !triggered {
            self.check_sends_justified(&rpcs, &[], false, &[], out);
            self.appts.insert((u, k), new);
            return;
        }
        match spec_decrypt(k, &appt.encrypted_blob, &d_txid) {
            Ok(ptxid) => {
                match self.penalty_verdict(&rpcs, &ptxid, w) {
                    None => {
                        out.push(Viol {
                            // (C08 too: a receipt was issued for an appointment that is neither held nor responded to, and the
                            // node did not refuse its penalty - it was not asked)
                            props: &["C01", "C08"],
                            sig: "breach-not-answered:at-acceptance".into(),
                            detail: format!(
                                "add(U{u},D{k}): D{k} is in the last blocks the tower holds, blob decrypts to {}, but the penalty was neither submitted nor known to the node",
                                tx_label(&ptxid)
                            ),
                        });
                    }
                    Some(Verdict::Accepted) => {
                        new.state = AState::Responded { penalty: ptxid };
                        self.appts.insert((u, k), new);
                    }
                    Some(Verdict::InChain) => {
                        // in a block the tower has not processed yet: tracked like an accepted one (the
                        // confirmation is recorded when the tower gets there)
                        new.state = AState::Responded { penalty: ptxid };
                        self.appts.insert((u, k), new);
                    }
                    Some(Verdict::Rejected) => {
                        self.appts.remove(&(u, k));
                        self.users.get_mut(&u).unwrap().forfeited += new_slots;
                    }
                }
                self.check_sends_justified(&rpcs, &[ptxid], false, &[], out);
            }
            Err(_) => {
                // Undecryptable: accepted, receipt returned, dropped, slots forfeited.
                self.check_sends_justified(&rpcs, &[], false, &[], out);
                if old_slots > 0 && self.appts.contains_key(&(u, k)) {
                    // Only reachable when an earlier version is still watched although its dispute
                    // is in the cache (the node had answered "already in chain"): the update is
                    // dropped, the version held before stays, what was charged for the update is
                    // forfeited.
                    if need < 0 {
                        out.push(Viol {
                            props: &["C07"],
                            sig: "add:refund-for-dropped-update".into(),
                            detail: format!("add(U{u},D{k}): the undecryptable update was dropped, the {old_slots}-slot version stays, yet {} slot(s) were returned", -need),
                        });
                    }
                    self.users.get_mut(&u).unwrap().forfeited += need.max(0) as u64;
                } else {
                    self.appts.remove(&(u, k));
                    self.users.get_mut(&u).unwrap().forfeited += new_slots;
                }
            }
        }
    }

    /// What the node said about the penalty in this trace segment (or that it already had it).
    fn penalty_verdict(&self, rpcs: &[&crate::sim::RpcRecord], p: &Txid, w: &World) -> Option<Verdict> {
        let mut v = None;
        for r in rpcs.iter().filter(|r| r.txid.as_ref() == Some(p)) {
            match (r.method.as_str(), r.verdict.as_str()) {
                ("sendrawtransaction", "ok") | ("sendrawtransaction", "ok:mempool") => v = Some(Verdict::Accepted),
                ("getrawtransaction", "ok:mempool") => v = Some(Verdict::Accepted),
                ("sendrawtransaction", "err:-27") => v = Some(Verdict::InChain),
                ("sendrawtransaction", e) if e.starts_with("err:") => v = Some(Verdict::Rejected),
                _ => {}
            }
        }
        if v.is_none() && self.in_tower_index(w, p) {
            v = Some(Verdict::Accepted);
        }
        if v.is_none() && rpcs.iter().any(|r| r.txid.as_ref() == Some(p)) {
            // asked the mempool, then answered from the verdict the node gave earlier in this block
            // interval
            v = match self.receipts.get(p).copied() {
                Some("accepted") => Some(Verdict::Accepted),
                Some("inchain") => Some(Verdict::InChain),
                Some("rejected") => Some(Verdict::Rejected),
                _ => None,
            };
        }
        if v.is_none() && w.env.lock().confirmation(p).is_some() {
            // Not asked in this step (e.g. answered from the carrier's per-block receipt cache), but
            // the node provably has it confirmed on its active chain.
            v = Some(Verdict::InChain);
        }
        v
    }

    /// C02: every sendrawtransaction must be justified.
    /// (penalty, dispute) of every appointment currently responded to.
    fn tracked(&self) -> Vec<(Txid, Txid)> {
        self.appts
            .iter()
            .filter_map(|((_, k), a)| match &a.state {
                AState::Responded { penalty } | AState::Either { penalty } => Some((*penalty, txid_of(TxName::D(*k)))),
                _ => None,
            })
            .collect()
    }

    fn check_sends_justified(
        &self,
        rpcs: &[&crate::sim::RpcRecord],
        breach_penalties: &[Txid],
        dispute_sends_allowed: bool,
        tracked_before: &[(Txid, Txid)],
        out: &mut Vec<Viol>,
    ) {
        let mut tracked = self.tracked();
        tracked.extend_from_slice(tracked_before);
        for r in rpcs.iter().filter(|r| r.method == "sendrawtransaction") {
            let t = match r.txid {
                Some(t) => t,
                None => continue,
            };
            if breach_penalties.contains(&t) {
                continue;
            }
            let tracked_penalty = tracked.iter().any(|(p, _)| *p == t);
            if tracked_penalty {
                continue;
            }
            let tracked_dispute = tracked.iter().any(|(_, d)| *d == t);
            if tracked_dispute && dispute_sends_allowed {
                continue;
            }
            out.push(Viol {
                props: &["C02"],
                sig: format!(
                    "unjustified-broadcast:{}",
                    if tracked_dispute { "dispute-without-reorg" } else { "no-triggered-appointment" }
                ),
                detail: format!("the tower submitted {} which no observed breach justifies", tx_label(&t)),
            });
        }
    }

    // ---- chain events -----------------------------------------------------------------------

    fn on_chain_events(&mut self, obs: &StepObs, w: &World, out: &mut Vec<Viol>) {
        // Split the trace into segments: each starts with a Connect/Disconnect and holds the RPCs
        // made while the listeners processed that block.
        let mut segs: Vec<(Option<Trace>, Vec<&crate::sim::RpcRecord>)> = vec![(None, vec![])];
        for t in obs.trace.iter() {
            match t {
                Trace::Rpc(r) => segs.last_mut().unwrap().1.push(r),
                other => segs.push((Some(other.clone()), vec![])),
            }
        }
        if !segs[0].1.is_empty() {
            // RPCs before any block event in a chain step (e.g. during bootstrap): none expected.
            self.check_sends_justified(&segs[0].1, &[], false, &[], out);
        }
        for (head, rpcs) in segs.into_iter().skip(1) {
            match head.unwrap() {
                Trace::Disconnect(hash, h) => {
                    self.height = h - 1;
                    if self.recent.back() == Some(&hash) {
                        self.recent.pop_back();
                    }
                    if self.recent100.back() == Some(&hash) {
                        self.recent100.pop_back();
                    }
                    let prev = w.env.lock().entry(&hash).map(|e| e.block.header.prev_blockhash);
                    if let Some(p) = prev {
                        self.tip = p;
                    }
                    // Trackers whose penalty was confirmed in this very block must be re-submitted.
                    let txs: Vec<Txid> = w
                        .env
                        .lock()
                        .entry(&hash)
                        .map(|e| e.block.txdata.iter().map(|t| t.compute_txid()).collect())
                        .unwrap_or_default();
                    for a in self.appts.values_mut() {
                        if let AState::Responded { penalty } = &a.state {
                            if txs.contains(penalty) {
                                a.resend_due = true;
                            }
                        }
                    }
                    self.last_event_was_disconnect = true;
                    self.check_sends_justified(&rpcs, &[], false, &[], out);
                }
                Trace::Connect(hash, h) => {
                    let after_disconnect = self.last_event_was_disconnect;
                    self.last_event_was_disconnect = false;
                    self.height = h;
                    self.tip = hash;
                    self.recent.push_back(hash);
                    if self.recent.len() > 6 {
                        self.recent.pop_front();
                    }
                    self.recent100.push_back(hash);
                    if self.recent100.len() > 100 {
                        self.recent100.pop_front();
                    }
                    // C09: purge at height >= expiry + grace
                    let purged: Vec<u8> = self
                        .users
                        .iter()
                        .filter(|(_, su)| h as u64 >= self.purge_height(su))
                        .map(|(u, _)| *u)
                        .collect();
                    for u in purged {
                        self.remove_user(u);
                    }
                    // (trackers of users purged by this block may no longer be re-submitted)
                    let tracked_before = self.tracked();
                    let block_txs: Vec<Txid> = w
                        .env
                        .lock()
                        .entry(&hash)
                        .map(|e| e.block.txdata[1..].iter().map(|t| t.compute_txid()).collect())
                        .unwrap_or_default();

                    // C01: breaches in this block.
                    let mut breach_penalties = Vec::new();
                    let keys: Vec<(u8, u8)> = self.appts.keys().copied().collect();
                    for (u, k) in keys {
                        let d_txid = txid_of(TxName::D(k));
                        if !block_txs.contains(&d_txid) {
                            continue;
                        }
                        let a = self.appts.get(&(u, k)).unwrap().clone();
                        let watched = match &a.state {
                            AState::Watched => true,
                            // still watched is one admissible reading: then it is triggered again
                            AState::Either { .. } => obs_has_watched_row(obs, u, k),
                            AState::Responded { .. } => false,
                        };
                        if let AState::Responded { penalty } = &a.state {
                            // the dispute of an appointment already responded to is confirmed (again, after a
                            // reorg) in a block the tower processes: the node must be given the penalty, or be
                            // known to have it, while that block is handled - like for any other breach
                            if self.penalty_verdict(&rpcs, penalty, w).is_none() {
                                out.push(Viol {
                                    props: &["C01"],
                                    sig: "breach-not-answered:dispute-confirmed-again".into(),
                                    detail: format!(
                                        "block {h} confirms D{k} again; U{u}'s appointment is held (responded) but its penalty {} was neither submitted nor known to the node while the block was handled",
                                        tx_label(penalty)
                                    ),
                                });
                            }
                        }
                        if !watched {
                            continue;
                        }
                        let slots = slots_for(a.blob.len());
                        match spec_decrypt(k, &a.blob, &d_txid) {
                            Ok(ptxid) => {
                                breach_penalties.push(ptxid);
                                match self.penalty_verdict(&rpcs, &ptxid, w) {
                                    None => out.push(Viol {
                                        // when somebody else holds an appointment on the same commitment, this user's breach going
                                        // unanswered is also a failure of independence between users (C06)
                                        props: if self.appts.keys().any(|(u2, k2)| *k2 == k && *u2 != u) || obs.db_before.appointments.values().filter(|r| disp_of_locator_hex(&r.locator) == Some(k)).count() > 1 { &["C01", "C06"] } else { &["C01"] },
                                        sig: "breach-not-answered:in-block".into(),
                                        detail: format!(
                                            "block {h} confirms D{k}; U{u}'s appointment decrypts to {} but the penalty was neither submitted nor known to the node while the block was handled",
                                            tx_label(&ptxid)
                                        ),
                                    }),
                                    Some(Verdict::Accepted) => {
                                        let e = self.appts.get_mut(&(u, k)).unwrap();
                                        e.state = AState::Responded { penalty: ptxid };
                                        e.last_sent_h = h;
                                    }
                                    Some(Verdict::InChain) => {
                                        let e = self.appts.get_mut(&(u, k)).unwrap();
                                        e.state = AState::Responded { penalty: ptxid };
                                        e.last_sent_h = h;
                                    }
                                    Some(Verdict::Rejected) => {
                                        self.appts.remove(&(u, k));
                                        if let Some(su) = self.users.get_mut(&u) {
                                            su.forfeited += slots;
                                        }
                                    }
                                }
                            }
                            Err(_) => {
                                self.appts.remove(&(u, k));
                                if let Some(su) = self.users.get_mut(&u) {
                                    su.forfeited += slots;
                                }
                            }
                        }
                    }

                    // C04: trackers.
                    let keys: Vec<(u8, u8)> = self.appts.keys().copied().collect();
                    for (u, k) in keys {
                        let a = self.appts.get(&(u, k)).unwrap().clone();
                        let penalty = match &a.state {
                            AState::Responded { penalty } => *penalty,
                            _ => continue,
                        };
                        let d_txid = txid_of(TxName::D(k));
                        let slots = slots_for(a.blob.len());
                        let in_this_block = block_txs.contains(&penalty);
                        let sent_p = rpcs.iter().find(|r| r.method == "sendrawtransaction" && r.txid == Some(penalty));
                        let sent_d = rpcs.iter().find(|r| r.method == "sendrawtransaction" && r.txid == Some(d_txid));
                        let rejected = |r: &&crate::sim::RpcRecord| r.verdict.starts_with("err:") && r.verdict != "err:-27";
                        // (e) a rejected re-submission drops the tracker, no refund
                        let dropped = sent_p.map_or(false, |r| rejected(&r)) || sent_d.map_or(false, |r| rejected(&r));
                        // ... unless the penalty is confirmed on the chain the tower has processed
                        // (this block included): then nothing justifies forgetting the tracker.
                        let confirmed_now = w.env.lock().confirmation_on_branch(&penalty, &hash).is_some();
                        if dropped && !confirmed_now {
                            self.appts.remove(&(u, k));
                            if let Some(su) = self.users.get_mut(&u) {
                                su.forfeited += slots;
                            }
                            continue;
                        }
                        // (a) re-submission after the confirming block was disconnected
                        if a.resend_due {
                            if in_this_block {
                                // re-confirmed straight away: nothing to send
                            } else if sent_p.is_none() && sent_d.map_or(true, |r| !rejected(&r)) {
                                out.push(Viol {
                                    props: &["C04"],
                                    sig: "reorg:penalty-not-resubmitted".into(),
                                    detail: format!(
                                        "the block confirming {} was disconnected; first connected block {h} does not contain it, yet it was not re-submitted (dispute sent: {}, penalty sent: false)",
                                        tx_label(&penalty),
                                        sent_d.is_some()
                                    ),
                                });
                            } else if sent_d.is_none() {
                                out.push(Viol {
                                    props: &["C04"],
                                    sig: "reorg:dispute-not-resubmitted".into(),
                                    detail: format!("penalty {} re-submitted after reorg without its dispute", tx_label(&penalty)),
                                });
                            }
                            self.appts.get_mut(&(u, k)).unwrap().resend_due = false;
                        }
                        // ground truth confirmation on the chain the tower has processed
                        let conf = w.env.lock().confirmation_on_branch(&penalty, &hash).map(|(_, ch)| ch);
                        match conf {
                            Some(c) => {
                                self.appts.get_mut(&(u, k)).unwrap().last_sent_h = h;
                                // (d) completion exactly at c + 100
                                if h == c + 100 {
                                    self.appts.remove(&(u, k));
                                }
                            }
                            None => {
                                // (b) periodic re-submission while unconfirmed: at least once in
                                // any window of 7 heights
                                let e = self.appts.get_mut(&(u, k)).unwrap();
                                if sent_p.is_some() || e.last_sent_h > h {
                                    e.last_sent_h = h;
                                } else if h - e.last_sent_h >= 7 {
                                    out.push(Viol {
                                        props: &["C04"],
                                        sig: "unconfirmed-penalty-not-rebroadcast".into(),
                                        detail: format!(
                                            "{} is unconfirmed and was last submitted while handling height {}; now at {h} without a re-submission",
                                            tx_label(&penalty),
                                            e.last_sent_h
                                        ),
                                    });
                                }
                            }
                        }
                    }
                    self.check_sends_justified(&rpcs, &breach_penalties, after_disconnect, &tracked_before, out);
                }
                Trace::Rpc(_) => unreachable!(),
            }
        }
    }

    // ---- database vs spec ---------------------------------------------------------------------

    fn compare_db(&mut self, obs: &StepObs, w: &World, out: &mut Vec<Viol>) {
        let db = &obs.db_after;
        if db.fk_violations > 0 {
            out.push(Viol {
                props: &["C03", "C10"],
                sig: "db:dangling-records".into(),
                detail: format!("{} foreign key violations", db.fk_violations),
            });
        }
        // users
        let mut spec_users: BTreeMap<String, (u32, u32)> = BTreeMap::new();
        for (u, su) in &self.users {
            spec_users.insert(user_keys(*u).hex(), (su.start, su.expiry));
        }
        let db_users: BTreeMap<String, (u32, u32)> = db.users.iter().map(|(k, v)| (k.clone(), (v.1, v.2))).collect();
        if spec_users != db_users {
            let missing: Vec<_> = spec_users.keys().filter(|k| !db_users.contains_key(*k)).map(|k| user_of_hex(k)).collect();
            let extra: Vec<_> = db_users.keys().filter(|k| !spec_users.contains_key(*k)).map(|k| user_of_hex(k)).collect();
            let kind = if !missing.is_empty() {
                "user-deleted-early"
            } else if !extra.is_empty() {
                "user-not-purged"
            } else {
                "subscription-window"
            };
            out.push(Viol {
                props: &["C09", "C03", "C06"],
                sig: format!("users:{kind}"),
                detail: format!(
                    "after {:?} at tower height {}: users table (start,expiry) {:?} but the statement requires {:?} (grace {})",
                    obs.ev,
                    self.height,
                    db_users.iter().map(|(k, v)| (user_of_hex(k), *v)).collect::<Vec<_>>(),
                    spec_users.iter().map(|(k, v)| (user_of_hex(k), *v)).collect::<Vec<_>>(),
                    self.cfg.grace
                ),
            });
            return;
        }
        // appointments / trackers
        let mut expected_rows: BTreeMap<String, (u8, u8)> = BTreeMap::new();
        for ((u, k), _) in &self.appts {
            expected_rows.insert(uuid_hex(&locator_of(*k), &user_keys(*u).id()), (*u, *k));
        }
        for (uuid, row) in db.appointments.iter() {
            if !expected_rows.contains_key(uuid) {
                let who = user_of_hex(&row.user);
                let k = disp_of_locator_hex(&row.locator);
                out.push(Viol {
                    props: &["C01", "C04", "C07", "C02", "C03", "C06"],
                    sig: format!(
                        "rows:unexpected-{}",
                        if db.trackers.contains_key(uuid) { "tracker" } else { "appointment" }
                    ),
                    detail: format!(
                        "after {:?}: the tower holds an appointment of U{who:?} for D{k:?} (tracker: {}) that should be gone (completed / dropped / purged)",
                        obs.ev,
                        db.trackers.contains_key(uuid)
                    ),
                });
            }
        }
        for (uuid, (u, k)) in expected_rows.iter() {
            let a = self.appts.get(&(*u, *k)).unwrap().clone();
            let row = db.appointments.get(uuid);
            let trk = db.trackers.get(uuid);
            let row = match row {
                Some(r) => r,
                None => {
                    out.push(Viol {
                        props: &["C01", "C03", "C04", "C08", "C07", "C06"],
                        sig: format!(
                            "rows:missing-{}",
                            match a.state {
                                AState::Watched => "watched-appointment",
                                _ => "tracker",
                            }
                        ),
                        detail: format!(
                            "after {:?}: U{u}'s appointment for D{k} ({:?}) is no longer held although nothing justified dropping it",
                            obs.ev, a.state
                        ),
                    });
                    continue;
                }
            };
            if row.blob != a.blob || row.to_self_delay != a.tsd || row.user_signature != a.sig || row.start_block != a.start_block {
                out.push(Viol {
                    props: &["C08", "C06"],
                    sig: "rows:stored-version-differs-from-last-accepted".into(),
                    detail: format!(
                        "U{u}/D{k}: stored (len {}, tsd {}, start {}) vs last accepted (len {}, tsd {}, start {})",
                        row.blob.len(),
                        row.to_self_delay,
                        row.start_block,
                        a.blob.len(),
                        a.tsd,
                        a.start_block
                    ),
                });
            }
            match (&a.state, trk) {
                (AState::Watched, None) => {}
                (AState::Watched, Some(t)) => out.push(Viol {
                    props: &["C02"],
                    sig: "rows:responded-without-breach".into(),
                    detail: format!("U{u}/D{k} reported as responded ({}) although no breach was observed / the node was not given the penalty", tx_label(&t.penalty)),
                }),
                (AState::Responded { penalty }, Some(t)) | (AState::Either { penalty }, Some(t)) => {
                    if t.penalty != *penalty || t.dispute != txid_of(TxName::D(*k)) {
                        out.push(Viol {
                            props: &["C01", "C06"],
                            sig: "rows:tracker-with-wrong-transactions".into(),
                            detail: format!("U{u}/D{k}: tracker holds ({},{}) expected (D{k},{})", tx_label(&t.dispute), tx_label(&t.penalty), tx_label(penalty)),
                        });
                    }
                    if let AState::Either { penalty } = a.state.clone() {
                        self.appts.get_mut(&(*u, *k)).unwrap().state = AState::Responded { penalty };
                    }
                }
                (AState::Either { .. }, None) => {}
                (AState::Responded { penalty }, None) => out.push(Viol {
                    props: &["C01", "C04", "C03"],
                    sig: "rows:tracker-lost".into(),
                    detail: format!("U{u}/D{k}: the node took {} but the appointment is not reported as responded", tx_label(penalty)),
                }),
            }
        }
        if !out.is_empty() {
            return;
        }
        // C07 conservation
        for (u, su) in &self.users {
            let id = user_keys(*u).hex();
            let avail = db.users.get(&id).map_or(0, |r| r.0) as u64;
            let held: u64 = db
                .appointments
                .values()
                .filter(|r| r.user == id)
                .map(|r| slots_for(r.blob.len()))
                .sum();
            if avail + held + su.forfeited != su.granted {
                // a tracker of this user went away in this step: the balance being wrong is then also a
                // wrong (or unpersisted) refund / forfeit of a resolved tracker (C04)
                let tracker_gone = obs.db_before.trackers.keys().any(|k| !db.trackers.contains_key(k) && obs.db_before.appointments.get(k).map_or(false, |a| a.user == id));
                out.push(Viol {
                    props: if tracker_gone { &["C07", "C04"] } else { &["C07"] },
                    sig: format!(
                        "slots:not-conserved:after:{}:delta={}",
                        ev_kind(&obs.ev),
                        (avail + held + su.forfeited) as i64 - su.granted as i64
                    ),
                    detail: format!(
                        "U{u} after {:?}: granted {} != available {avail} + held {held} + forfeited {}",
                        obs.ev, su.granted, su.forfeited
                    ),
                });
            }
        }
        // C04 (c): confirmed rows point to the right height of the active chain, once the tower is
        // in sync with the node.
        let synced = self.tip == w.env.lock().tip;
        if synced && !matches!(obs.ev, Ev::Register(_) | Ev::Add { .. }) {
            for (uuid, t) in db.trackers.iter() {
                let truth = w.env.lock().confirmation(&t.penalty).map(|(_, h)| h);
                if t.confirmed && truth != Some(t.height) {
                    out.push(Viol {
                        props: &["C04"],
                        sig: format!(
                            "tracker:confirmed-height-wrong:{}",
                            match truth {
                                None => "not-on-active-chain".to_owned(),
                                Some(h) => format!("off-by={}", t.height as i64 - h as i64),
                            }
                        ),
                        detail: format!(
                            "tracker {} records {} as confirmed at {} but the active chain has it at {:?}",
                            &uuid[..8],
                            tx_label(&t.penalty),
                            t.height,
                            truth
                        ),
                    });
                }
            }
        }
    }

    /// Read-back probes through the public API (C08, C09, C01 reporting). Pure reads.
    pub fn probe(&self, w: &World, out: &mut Vec<Viol>) {
        if self.lost || w.dead {
            return;
        }
        let api = w.api();
        let db = w.db_view();
        for u in 1..=2u8 {
            let keys = user_keys(u);
            let r = api.get_subscription_info(keys.sign(b"get subscription info"));
            match (self.users.get(&u), r) {
                (None, Err(e)) if e.code == tonic::Code::Unauthenticated => {}
                (Some(su), Err(e))
                    if self.height >= su.expiry
                        && e.code == tonic::Code::Unauthenticated
                        && e.msg.contains(&format!("expired at {}", su.expiry)) => {}
                (Some(su), Ok(info)) if self.height < su.expiry => {
                    let row = db.users.get(&keys.hex()).copied();
                    let mut locs: Vec<String> = info.locators.iter().map(hex::encode).collect();
                    locs.sort();
                    let mut exp: Vec<String> = self
                        .appts
                        .keys()
                        .filter(|(uu, _)| *uu == u)
                        .map(|(_, k)| hex::encode(locator_of(*k).to_vec()))
                        .collect();
                    exp.sort();
                    if row.map(|r| (r.0, r.2)) != Some((info.available_slots, info.subscription_expiry))
                        || info.subscription_expiry != su.expiry
                        || locs != exp
                    {
                        out.push(Viol {
                            props: &["C07", "C08", "C06"],
                            sig: "probe:subscription-info-mismatch".into(),
                            detail: format!("U{u}: get_subscription_info {info:?} vs row {row:?} / expected locators {exp:?}"),
                        });
                    }
                }
                (s, r) => out.push(Viol {
                    props: &["C09", "C06"],
                    sig: format!(
                        "probe:subscription-usability:{}",
                        match (&s, &r) {
                            (None, Ok(_)) => "unknown-user-served",
                            (Some(_), Ok(_)) => "served-after-expiry",
                            (Some(su), Err(_)) if self.height < su.expiry => "refused-before-expiry",
                            _ => "wrong-error",
                        }
                    ),
                    detail: format!(
                        "U{u} at tower height {}: spec {:?}, get_subscription_info -> {:?}",
                        self.height,
                        s.map(|s| (s.start, s.expiry)),
                        r.map(|i| (i.available_slots, i.subscription_expiry))
                    ),
                }),
            }
            for k in 1..=2u8 {
                let loc = locator_of(k);
                let r = api.get_appointment(&loc, keys.sign(format!("get appointment {}", hex::encode(loc.to_vec())).as_bytes()));
                let usable = self.users.get(&u).map_or(false, |su| self.height < su.expiry);
                if !usable {
                    if !matches!(&r, Err(e) if e.code == tonic::Code::Unauthenticated) {
                        out.push(Viol {
                            props: &["C09", "C06"],
                            sig: "probe:get-appointment-served-without-subscription".into(),
                            detail: format!("U{u}/D{k}: {r:?}"),
                        });
                    }
                    continue;
                }
                match (self.appts.get(&(u, k)), r) {
                    (None, Err(e)) if e.code == tonic::Code::NotFound => {}
                    (Some(a), Ok(resp)) => {
                        use teos_common::protos::appointment_data::AppointmentData as AD;
                        let data = resp.appointment_data.and_then(|d| d.appointment_data);
                        match (&a.state, data) {
                            (AState::Watched, Some(AD::Appointment(ap))) | (AState::Either { .. }, Some(AD::Appointment(ap))) => {
                                if resp.status != 1 || ap.locator != loc.to_vec() || ap.encrypted_blob != a.blob || ap.to_self_delay != a.tsd {
                                    out.push(Viol {
                                        props: &["C08"],
                                        sig: "probe:read-back-differs".into(),
                                        detail: format!("U{u}/D{k}: get_appointment does not return the last accepted version"),
                                    });
                                }
                            }
                            (AState::Responded { penalty }, Some(AD::Tracker(t))) | (AState::Either { penalty }, Some(AD::Tracker(t))) => {
                                use bitcoin::hashes::Hash;
                                let p = build_tx_by_id(penalty);
                                if resp.status != 2
                                    || t.dispute_txid != txid_of(TxName::D(k)).to_raw_hash().to_byte_array().to_vec()
                                    || t.penalty_txid != penalty.to_raw_hash().to_byte_array().to_vec()
                                    || p.map_or(false, |p| bitcoin::consensus::serialize(&p) != t.penalty_rawtx)
                                {
                                    out.push(Viol {
                                        props: &["C01"],
                                        sig: "probe:responded-with-wrong-transactions".into(),
                                        detail: format!("U{u}/D{k}: dispute_responded reply does not carry exactly the dispute and penalty"),
                                    });
                                }
                            }
                            (s, d) => out.push(Viol {
                                props: &["C01", "C02", "C08"],
                                sig: "probe:wrong-appointment-status".into(),
                                detail: format!("U{u}/D{k}: spec {s:?} but get_appointment returned status {} ({})", resp.status, if matches!(d, Some(AD::Tracker(_))) { "tracker" } else { "appointment" }),
                            }),
                        }
                    }
                    (s, r) => out.push(Viol {
                        props: &["C01", "C06", "C08"],
                        sig: "probe:get-appointment-mismatch".into(),
                        detail: format!("U{u}/D{k}: spec {:?} but get_appointment -> {:?}", s.map(|a| a.state.clone()), r.map(|x| x.status)),
                    }),
                }
            }
        }
        // private API vs tables
        let info = api.get_tower_info();
        let n_trk = db.trackers.len();
        let n_app = db.appointments.len() - n_trk;
        if info.n_registered_users as usize != db.users.len()
            || info.n_watcher_appointments as usize != n_app
            || info.n_responder_trackers as usize != n_trk
            || api.get_all_appointments().len() != db.appointments.len()
        {
            out.push(Viol {
                props: &["C07", "C03"],
                sig: "probe:tower-info-differs-from-tables".into(),
                detail: format!("{info:?} vs users {} appointments {n_app} trackers {n_trk}", db.users.len()),
            });
        }
        for u in 1..=2u8 {
            let r = api.get_user(&user_keys(u));
            let row = db.users.get(&user_keys(u).hex());
            match (r, row) {
                (Ok(g), Some(row)) if g.available_slots == row.0 && g.subscription_expiry == row.2 => {}
                (Err(_), None) => {}
                (r, row) => out.push(Viol {
                    props: &["C07"],
                    sig: "probe:memory-differs-from-disk".into(),
                    detail: format!("U{u}: get_user (memory) {:?} vs users row {row:?}", r.map(|g| (g.available_slots, g.subscription_expiry))),
                }),
            }
        }
    }
}

fn build_tx_by_id(t: &Txid) -> Option<bitcoin::Transaction> {
    crate::sim::name_of(t).map(build_tx)
}

fn obs_has_watched_row(obs: &StepObs, u: u8, k: u8) -> bool {
    let uuid = uuid_hex(&locator_of(k), &user_keys(u).id());
    obs.db_before.appointments.contains_key(&uuid) && !obs.db_before.trackers.contains_key(&uuid)
}

#[derive(Clone, Copy, Debug, PartialEq, Eq)]
enum Verdict {
    Accepted,
    InChain,
    Rejected,
}

pub fn ev_kind(ev: &Ev) -> &'static str {
    match ev {
        Ev::Register(_) => "register",
        Ev::Add { .. } => "add",
        Ev::Mine(_) => "mine",
        Ev::Poll => "poll",
        Ev::MineP(_) => "mine+poll",
        Ev::External(_) => "external",
        Ev::Evict(_) => "evict",
        Ev::Reorg { .. } => "reorg",
        Ev::ReorgP { .. } => "reorg+poll",
        Ev::Advance(_) => "advance",
        Ev::AdvanceBulk(_) => "advance-bulk",
        Ev::Restart => "restart",
    }
}
