//! Engines X and H (pure parts): C19 (tx index), C20 (configuration), C17 (crypto contracts).

use std::collections::{HashMap, HashSet, VecDeque};
use std::time::Duration;

use bitcoin::hashes::Hash;
use bitcoin::secp256k1::{PublicKey, Secp256k1, SecretKey};
use bitcoin::{BlockHash, Transaction, Txid};
use lightning_block_sync::poll::{Validate, ValidatedBlock};
use lightning_block_sync::BlockData;
use serde_json::json;

use teos::verif_export::TxIndex;
use teos_common::appointment::Locator;
use teos_common::cryptography;

use crate::explore::{bfs, fingerprint, merge_stats, Model, StepResult};
use crate::report::{Run, Tier};
use crate::sim::{make_block_pub, BlockEntry};

// =============================================================================================
// C19
// =============================================================================================

#[derive(Clone, Debug, PartialEq, Eq, Hash, serde::Serialize, serde::Deserialize)]
pub enum XOp {
    /// Connect a block carrying the given subset (bit mask) of the 3-transaction universe.
    Connect(u8),
    /// Disconnect the last block.
    Disconnect,
}

fn universe_tx(i: u8) -> Transaction {
    crate::sim::build_tx(match i {
        0 => crate::sim::TxName::D(1),
        1 => crate::sim::TxName::D(2),
        _ => crate::sim::TxName::D(3),
    })
}

struct XWorld {
    /// The chain the index follows: all blocks ever produced, by hash.
    blocks: HashMap<BlockHash, BlockEntry>,
    /// Live chain (hashes), last = tip.
    chain: Vec<BlockHash>,
    idx_txid: TxIndex<Txid, BlockHash>,
    idx_loc: TxIndex<Locator, Transaction>,
    /// Reference: the last <= n blocks that were delivered and not disconnected.
    reference: VecDeque<BlockHash>,
    n: usize,
    tag: u32,
    ever: Vec<BlockHash>,
    /// blocks that were connected with an empty key map
    bare: std::collections::HashSet<BlockHash>,
}

fn validated(e: &BlockEntry) -> ValidatedBlock {
    BlockData::FullBlock(e.block.clone()).validate(e.hash).unwrap()
}

impl XWorld {
    fn new(n: usize, prefill: usize) -> XWorld {
        // a base chain of `prefill` blocks; the index is built from the last n as main.rs does
        let mut blocks = HashMap::new();
        let mut chain = Vec::new();
        let mut prev: Option<BlockEntry> = None;
        for i in 0..prefill {
            let e = make_block_pub(prev.as_ref(), vec![], 7_000 + i as u32);
            chain.push(e.hash);
            blocks.insert(e.hash, e.clone());
            prev = Some(e);
        }
        let last_n: Vec<ValidatedBlock> = chain.iter().rev().take(n).map(|h| validated(&blocks[h])).collect();
        let height = (prefill - 1) as u32;
        let reference: VecDeque<BlockHash> = chain.iter().rev().take(n).rev().cloned().collect();
        XWorld {
            idx_txid: TxIndex::new(&last_n, height),
            idx_loc: TxIndex::new(&last_n, height),
            blocks,
            ever: chain.clone(),
            chain,
            reference,
            n,
            tag: 0,
            bare: std::collections::HashSet::new(),
        }
    }

    fn live_keys(&self) -> HashSet<u8> {
        let mut s = HashSet::new();
        for h in self.reference.iter() {
            for t in self.blocks[h].block.txdata[1..].iter() {
                for i in 0..3u8 {
                    if universe_tx(i).compute_txid() == t.compute_txid() {
                        s.insert(i);
                    }
                }
            }
        }
        s
    }

    fn apply(&mut self, op: &XOp) {
        match op {
            XOp::Connect(mask) => {
                let txs: Vec<Transaction> = (0..3u8).filter(|i| mask & (1 << i) != 0).map(universe_tx).collect();
                self.tag += 1;
                let prev = self.blocks[self.chain.last().unwrap()].clone();
                let e = make_block_pub(Some(&prev), txs, self.tag);
                let header = e.block.header;
                // bit 3: the block is handed over with no transactions at all (as a filtered block would be)
                let bare = mask & 8 != 0;
                if bare {
                    self.bare.insert(e.hash);
                }
                let m1: HashMap<Txid, BlockHash> = if bare { HashMap::new() } else { e.block.txdata.iter().map(|t| (t.compute_txid(), e.hash)).collect() };
                let m2: HashMap<Locator, Transaction> =
                    if bare { HashMap::new() } else { e.block.txdata.iter().map(|t| (Locator::new(t.compute_txid()), t.clone())).collect() };
                self.idx_txid.update(header, &m1);
                self.idx_loc.update(header, &m2);
                self.chain.push(e.hash);
                self.ever.push(e.hash);
                self.reference.push_back(e.hash);
                if self.reference.len() > self.n {
                    self.reference.pop_front();
                }
                self.blocks.insert(e.hash, e);
            }
            XOp::Disconnect => {
                let h = self.chain.pop().unwrap();
                self.idx_txid.remove_disconnected_block(&h);
                self.idx_loc.remove_disconnected_block(&h);
                if self.reference.back() == Some(&h) {
                    self.reference.pop_back();
                }
            }
        }
    }

    fn check(&self, out: &mut Vec<(String, String)>) {
        // expected content
        let mut exp: HashMap<Txid, (BlockHash, Transaction)> = HashMap::new();
        for h in self.reference.iter() {
            if self.bare.contains(h) {
                continue;
            }
            for t in self.blocks[h].block.txdata.iter() {
                exp.insert(t.compute_txid(), (*h, t.clone()));
            }
        }
        // every transaction ever seen
        for h in self.ever.iter() {
            for t in self.blocks[h].block.txdata.iter() {
                let id = t.compute_txid();
                let got1 = self.idx_txid.get(&id).copied();
                let loc = Locator::new(id);
                let got2 = self.idx_loc.get(&loc).cloned();
                let want = exp.get(&id);
                if got1 != want.map(|w| w.0) {
                    out.push((
                        format!("index:{}", match (got1.is_some(), want.is_some()) {
                            (true, false) => "stale-entry-returned",
                            (false, true) => "live-entry-missing",
                            _ => "entry-maps-to-wrong-block",
                        }),
                        format!("txid index: get({}) = {got1:?}, expected {:?}", &id.to_string()[..8], want.map(|w| w.0)),
                    ));
                }
                if got2.as_ref().map(|t| t.compute_txid()) != want.map(|w| w.1.compute_txid()) {
                    out.push((
                        format!("cache:{}", match (got2.is_some(), want.is_some()) {
                            (true, false) => "stale-entry-returned",
                            (false, true) => "live-entry-missing",
                            _ => "wrong-transaction",
                        }),
                        format!("locator cache: get({loc}) mismatch"),
                    ));
                }
            }
        }
        for h in self.ever.iter() {
            let want = if self.reference.contains(h) { Some(self.blocks[h].height as usize) } else { None };
            for (which, got) in [("index", self.idx_txid.get_height(h)), ("cache", self.idx_loc.get_height(h))] {
                if got != want {
                    let kind = match (got, want) {
                        (Some(g), Some(w)) if self.reference.len() < self.n && g as i64 - w as i64 == (self.n - self.reference.len()) as i64 => {
                            "too-high-by-the-number-of-outstanding-disconnects".to_owned()
                        }
                        (Some(g), Some(w)) => format!("height-off-by={}", g as i64 - w as i64),
                        (Some(_), None) => "height-for-block-not-held".to_owned(),
                        _ => "height-missing".to_owned(),
                    };
                    out.push((
                        format!("get_height:{kind}"),
                        format!("{which}: get_height(block at true height {}) = {got:?}, expected {want:?}; index holds {} of {} blocks", self.blocks[h].height, self.reference.len(), self.n),
                    ));
                }
            }
        }
    }

    fn fp(&self) -> u128 {
        let r: Vec<String> = self.reference.iter().map(|h| {
            let e = &self.blocks[h];
            let mut mask = 0u8;
            for t in e.block.txdata[1..].iter() {
                for i in 0..3u8 {
                    if universe_tx(i).compute_txid() == t.compute_txid() { mask |= 1 << i; }
                }
            }
            format!("{}:{}:{}", e.height, mask, self.bare.contains(h))
        }).collect();
        // structural snapshot of both real indexes, with block hashes / txids replaced by
        // history-independent labels (height+content for blocks, universe index or coinbase height
        // for transactions) so that only genuinely equal internal states are merged
        let mut s1 = self.idx_txid.verif_snapshot();
        let mut s2 = self.idx_loc.verif_snapshot();
        for h in self.ever.iter() {
            let e = &self.blocks[h];
            let label = format!("B{}{}", e.height, if self.reference.contains(h) { "L" } else { "S" });
            s1 = s1.replace(&h.to_string(), &label);
            s2 = s2.replace(&h.to_string(), &label);
            let cb = e.block.txdata[0].compute_txid();
            s1 = s1.replace(&cb.to_string(), &format!("cb{}", e.height));
            s2 = s2.replace(&format!("{:?}", Locator::new(cb)), &format!("cb{}", e.height));
        }
        // value digests depend on hashes: drop them (the lookups compared against the reference
        // already pin the values)
        let strip = |s: String| -> String {
            let mut out = String::new();
            let mut rest = s.as_str();
            while let Some(i) = rest.find('=') {
                out.push_str(&rest[..i]);
                let after = &rest[i + 1..];
                let hexlen = after.chars().take_while(|c| c.is_ascii_hexdigit()).count();
                if hexlen == 16 {
                    rest = &after[16..];
                } else {
                    out.push('=');
                    rest = after;
                }
            }
            out.push_str(rest);
            out
        };
        fingerprint(&[&format!("{r:?}"), &strip(s1), &strip(s2), &format!("{}", self.chain.len())])
    }
}

struct XModel {
    n: usize,
}

impl Model for XModel {
    type Ev = XOp;
    fn name(&self) -> String {
        format!("C19/N={}", self.n)
    }
    fn run(&self, history: &[XOp]) -> StepResult<XOp> {
        let mut w = XWorld::new(self.n, self.n + 3);
        let mut v = Vec::new();
        for op in history {
            // a panic of the index is a verdict, not a crash of the explorer
            if let Err(p) = std::panic::catch_unwind(std::panic::AssertUnwindSafe(|| w.apply(op))) {
                let msg: String = crate::world::panic_message(&p).chars().take(80).collect();
                v.push((format!("panic:tx_index:{msg}"), format!("{op:?} panicked: {} @{}", crate::world::panic_message(&p), crate::world::take_panic_location())));
                return StepResult { fingerprint: 0, enabled: vec![], prune: true, violations: v, outcome: "panic".into() };
            }
        }
        if let Err(p) = std::panic::catch_unwind(std::panic::AssertUnwindSafe(|| w.check(&mut v))) {
            let msg: String = crate::world::panic_message(&p).chars().take(80).collect();
            v.push((format!("panic:tx_index:{msg}"), format!("a look-up panicked: {}", crate::world::panic_message(&p))));
            return StepResult { fingerprint: 0, enabled: vec![], prune: true, violations: v, outcome: "panic".into() };
        }
        v.sort();
        v.dedup_by(|a, b| a.0 == b.0);
        let live = w.live_keys();
        let mut enabled = Vec::new();
        for mask in 0..8u8 {
            if (0..3u8).all(|i| mask & (1 << i) == 0 || !live.contains(&i)) {
                enabled.push(XOp::Connect(mask));
            }
        }
        enabled.push(XOp::Connect(8));
        // (also beyond what the index holds: a reorg deeper than N blocks)
        if w.chain.len() > 1 {
            enabled.push(XOp::Disconnect);
        }
        let outcome = format!("held={} chain={}", w.reference.len(), w.chain.len());
        StepResult { fingerprint: w.fp(), enabled, prune: !v.is_empty(), violations: v, outcome }
    }
    fn describe(&self, history: &[XOp]) -> serde_json::Value {
        json!({"engine": "X", "n": self.n, "ops": history})
    }
}

fn c19_family(n: usize, run: &Run) -> (u64, u64) {
    // production sizes: linear growth to 3N, reorgs of every depth at several fill levels, repeated
    let mut execs = 0u64;
    let mut steps = 0u64;
    let mut scripts: Vec<Vec<XOp>> = Vec::new();
    // linear growth to 3N; three different transactions, each mined once (a txid cannot occur twice
    // on a valid chain without a disconnect in between)
    scripts.push(
        (0..3 * n)
            .map(|i| XOp::Connect(if i % (n + 1) == 0 { 1u8 << ((i / (n + 1)) % 3) } else { 0 }))
            .collect(),
    );
    // (n + 1 and n + 2: reorgs deeper than the index)
    let depths: Vec<usize> = if n <= 6 { (1..=n + 2).collect() } else { vec![1, 2, 3, 5, 6, 7, 50, 99, 100, 101, 102] };
    for d in depths {
        for pre in [0usize, 1, n / 2, n] {
            let mut s: Vec<XOp> = (0..pre).map(|_| XOp::Connect(0)).collect();
            s.push(XOp::Connect(1));
            for _ in 1..d {
                s.push(XOp::Connect(0));
            }
            for _ in 0..d {
                s.push(XOp::Disconnect);
            }
            // replacement re-includes the same transaction one block later
            s.push(XOp::Connect(0));
            s.push(XOp::Connect(1));
            for _ in 0..d {
                s.push(XOp::Connect(0));
            }
            // a second reorg on top
            s.push(XOp::Disconnect);
            s.push(XOp::Connect(2));
            scripts.push(s);
        }
    }
    for s in scripts {
        let mut w = XWorld::new(n, n + 3);
        execs += 1;
        for (i, op) in s.iter().enumerate() {
            w.apply(op);
            steps += 1;
            let mut v = Vec::new();
            w.check(&mut v);
            for (sig, detail) in v {
                run.violation(&sig, detail, json!({"engine": "X", "n": n, "ops": &s[..=i]}), i + 1);
            }
        }
    }
    (execs, steps)
}

pub fn c19_replay(v: &serde_json::Value) -> i32 {
    let h = &v["replay"];
    let h = if h.get("history").is_some() { &h["history"] } else { h };
    let n = h["n"].as_u64().unwrap() as usize;
    let ops: Vec<XOp> = serde_json::from_value(h["ops"].clone()).unwrap();
    let mut w = XWorld::new(n, n + 3);
    let mut bad = 0;
    for op in ops {
        w.apply(&op);
        let mut v = Vec::new();
        w.check(&mut v);
        println!("{op:?}: held {} blocks; {}", w.reference.len(), w.idx_txid.verif_snapshot().chars().take(60).collect::<String>());
        for (s, d) in v {
            println!("    VIOL {s} :: {d}");
            bad += 1;
        }
    }
    (bad > 0) as i32
}

pub fn c19(tier: Tier) -> i32 {
    let run = Run::new("C19", "model_checking", tier);
    let depth = if tier == Tier::Quick { 9 } else { 13 };
    let mut all = Vec::new();
    let ns: Vec<usize> = if tier == Tier::Quick { vec![1, 2, 3] } else { vec![1, 2, 3, 4, 5] };
    for n in ns {
        let m = XModel { n };
        let s = bfs(&m, depth, Duration::from_secs(if tier == Tier::Quick { 15 } else { 200 }), &run);
        all.push((m.name(), s));
    }
    // the two indexes as the live tower maintains them (engine T): after every step of every history the
    // Watcher's locator cache and the Responder's transaction index are compared with the last 6 / 100
    // blocks delivered to the listeners (oracle `recent-blocks:*` of the reference model)
    {
        use crate::tmodel::{Alphabet, TowerModel};
        use crate::sim::Replacement;
        let cfg = crate::tower::TowerCfg { slots: 3, duration: 400, grace: 6, txindex: false };
        let mut a = Alphabet::basic();
        a.max_adds = 1;
        a.mine_dispute_and_penalty = true;
        a.split_poll = true;
        a.reorgs = vec![(1, Replacement::Same), (2, Replacement::Same), (1, Replacement::Unconfirm), (2, Replacement::Delay)];
        a.restart = true;
        a.bulk_advances = vec![7];
        a.max_deviations = if tier == Tier::Quick { 2 } else { 3 };
        let d = if tier == Tier::Quick { 4 } else { 6 };
        for (label, seed) in [("S0", vec![]), ("S4", crate::checks_t::seed("S4"))] {
            let m = TowerModel { label: format!("C19/tower/{label}"), cfg, seed, alphabet: a.clone(), props: vec!["C19"], probe: false, forgery: None };
            let s = bfs(&m, d, Duration::from_secs(if tier == Tier::Quick { 12 } else { 200 }), &run);
            all.push((m.name(), s));
        }
    }
    merge_stats(&run, &all);
    let mut fam = (0, 0);
    for n in [6usize, 100] {
        let r = c19_family(n, &run);
        fam.0 += r.0;
        fam.1 += r.1;
    }
    run.set("production_size_scripts", json!(fam.0));
    run.set("production_size_steps_checked", json!(fam.1));
    run.set("traces_validated_against_impl", json!(0));
    run.set("rule", json!("BFS over connect(subset of a 3-transaction universe not in a live block)/disconnect-last on the real TxIndex<Txid,BlockHash> and TxIndex<Locator,Transaction> with N in {1,2,3} (thorough: up to 5), deduplicated on (held blocks with their contents and heights, tip field); after every operation every key and block ever seen is looked up and compared with a VecDeque reference; plus deterministic reorg families at N = 6 and 100; plus engine T: BFS over the live tower (blocks, split polls, reorgs of depth 1-2 with 3 kinds of replacement, 7-block advance, restart, one appointment) from seeds S0 and S4 where after every step the Watcher's locator cache and the Responder's transaction index must hold exactly the last 6 / 100 delivered blocks with exactly their transactions and the right height"));
    run.assume("the same txid never appears in two live blocks (impossible on a valid chain)");
    run.finish()
}

// =============================================================================================
// C17
// =============================================================================================

fn c17_transactions(tier: Tier) -> Vec<Transaction> {
    use bitcoin::absolute::LockTime;
    use bitcoin::transaction::Version;
    use bitcoin::{Amount, OutPoint, ScriptBuf, Sequence, TxIn, TxOut, Witness};
    let script_lens: &[usize] = if tier == Tier::Quick { &[0, 1, 76] } else { &[0, 1, 75, 76, 255, 256] };
    let values: &[u64] = &[0, 1, (1u64 << 63) - 1];
    let mut v = Vec::new();
    for n_in in 1..=2usize {
        for n_out in 1..=2usize {
            for sl in script_lens {
                for wit in [false, true] {
                    for val in values {
                        let input: Vec<TxIn> = (0..n_in)
                            .map(|i| TxIn {
                                previous_output: OutPoint { txid: Txid::from_byte_array([i as u8 + 1; 32]), vout: i as u32 },
                                script_sig: ScriptBuf::from_bytes(vec![0x51; *sl]),
                                sequence: Sequence::MAX,
                                witness: if wit { Witness::from_slice(&[vec![1u8; 3], vec![]]) } else { Witness::new() },
                            })
                            .collect();
                        let output: Vec<TxOut> = (0..n_out)
                            .map(|_| TxOut { value: Amount::from_sat(*val), script_pubkey: ScriptBuf::from_bytes(vec![0x6a; *sl]) })
                            .collect();
                        v.push(Transaction { version: Version::TWO, lock_time: LockTime::ZERO, input, output });
                    }
                }
            }
        }
    }
    // big ones: blobs on both sides of the 2048-byte slot size and well beyond
    for target in [2031usize, 2032, 2033, 4096, 10_000] {
        let mk = |script_len: usize| Transaction {
            version: Version::TWO,
            lock_time: LockTime::ZERO,
            input: vec![TxIn { previous_output: OutPoint { txid: Txid::from_byte_array([9; 32]), vout: 1 }, script_sig: ScriptBuf::new(), sequence: Sequence::MAX, witness: Witness::new() }],
            output: vec![TxOut { value: Amount::from_sat(5), script_pubkey: ScriptBuf::from_bytes(vec![0x6a; script_len]) }],
        };
        let mut len = target.saturating_sub(70);
        while bitcoin::consensus::serialize(&mk(len)).len() < target {
            len += 1;
        }
        v.push(mk(len));
    }
    v.push(Transaction {
        version: Version::TWO,
        lock_time: LockTime::ZERO,
        input: vec![TxIn { previous_output: OutPoint { txid: Txid::from_byte_array([8; 32]), vout: 0 }, script_sig: ScriptBuf::new(), sequence: Sequence::MAX, witness: Witness::new() }],
        output: (0..64).map(|i| TxOut { value: Amount::from_sat(i), script_pubkey: ScriptBuf::from_bytes(vec![0x51; 25]) }).collect(),
    });
    v
}

pub fn c17(tier: Tier) -> i32 {
    let run = Run::new("C17", "exploration", tier);
    let txs = c17_transactions(tier);
    let mut ids: Vec<Txid> = (0..6u8).map(|i| Txid::from_byte_array([0x10 + i; 32])).collect();
    // two ids sharing 31 bytes (differ in the last byte, i.e. outside the locator)
    let mut a = [0x77u8; 32];
    ids.push(Txid::from_byte_array(a));
    a[31] = 0x78;
    ids.push(Txid::from_byte_array(a));
    // and two sharing the locator prefix only in the first 15 bytes
    let ids = if tier == Tier::Quick { ids[4..].to_vec() } else { ids };
    let mut evals = 0u64;
    let mut distinct: HashSet<Vec<u8>> = HashSet::new();
    let items: Vec<(usize, usize)> = (0..txs.len()).flat_map(|t| (0..ids.len()).map(move |k| (t, k))).collect();
    let (res, _) = crate::explore::par_map(&items, None, |_, (ti, ki)| {
        let t = &txs[*ti];
        let k = &ids[*ki];
        let mut v: Vec<(String, String)> = Vec::new();
        let mut n = 0u64;
        let ct = cryptography::encrypt(t, k).unwrap();
        n += 1;
        match cryptography::decrypt(&ct, k) {
            Ok(back) if back == *t => {}
            other => v.push(("roundtrip".into(), format!("decrypt(encrypt(t,k),k) != t: {:?}", other.map(|x| x.compute_txid())))),
        }
        for (j, other) in ids.iter().enumerate() {
            if j != *ki {
                n += 1;
                if cryptography::decrypt(&ct, other).is_ok() {
                    v.push(("decrypts-under-other-id".into(), format!("ciphertext for id #{ki} decrypts under id #{j}")));
                }
            }
        }
        // ... nor under the same 32 bytes in the other byte order (the id as printed), nor under ids sharing its first / last 16 bytes
        {
            let b = k.to_byte_array();
            let mut rev = b;
            rev.reverse();
            let mut same_prefix = b;
            same_prefix[31] ^= 0x01;
            let mut same_suffix = b;
            same_suffix[0] ^= 0x01;
            for (name, other) in [("byte-reversed", rev), ("same-first-31-bytes", same_prefix), ("same-last-31-bytes", same_suffix)] {
                if other != b {
                    n += 1;
                    if cryptography::decrypt(&ct, &Txid::from_byte_array(other)).is_ok() {
                        v.push(("decrypts-under-other-id".into(), format!("ciphertext for id #{ki} decrypts under the {name} id")));
                    }
                }
            }
        }
        // every single-bit flip (quick: every bit of a spread of bytes; thorough: every bit)
        let step = if tier == Tier::Quick { 5 } else { 1 };
        let mut i = 0;
        while i < ct.len() {
            for bit in 0..8 {
                let mut m = ct.clone();
                m[i] ^= 1 << bit;
                n += 1;
                if cryptography::decrypt(&m, k).is_ok() {
                    v.push(("bitflip-accepted".into(), format!("flipping bit {bit} of byte {i} still decrypts")));
                }
            }
            i += step;
        }
        for cut in 1..=16usize.min(ct.len()) {
            n += 2;
            if cryptography::decrypt(&ct[..ct.len() - cut], k).is_ok() {
                v.push(("truncation-accepted".into(), format!("ciphertext truncated by {cut} decrypts")));
            }
            let mut ext = ct.clone();
            ext.extend(std::iter::repeat(0u8).take(cut));
            if cryptography::decrypt(&ext, k).is_ok() {
                v.push(("extension-accepted".into(), format!("ciphertext extended by {cut} decrypts")));
            }
        }
        // the scheme itself, computed independently: same ciphertext, and plaintexts that are a transaction followed by
        // more bytes (or cut short) authenticate but are not a transaction
        n += 3;
        let plain = bitcoin::consensus::serialize(t);
        if crate::world::aead_encrypt(&plain, k) != ct {
            v.push(("ciphertext-differs-from-the-documented-scheme".into(), "encrypt(t,k) is not ChaCha20-Poly1305(SHA256(k), 0) of t's serialisation".into()));
        }
        let mut longer = plain.clone();
        longer.push(0);
        if cryptography::decrypt(&crate::world::aead_encrypt(&longer, k), k).is_ok() {
            v.push(("trailing-bytes-accepted".into(), "a blob whose plaintext is a transaction followed by another byte decrypts to a transaction".into()));
        }
        if cryptography::decrypt(&crate::world::aead_encrypt(&plain[..plain.len() - 1], k), k).is_ok() {
            v.push(("cut-plaintext-accepted".into(), "a blob whose plaintext is a transaction cut by one byte decrypts to a transaction".into()));
        }
        // every short prefix (down to nothing: shorter than the authentication tag) fails cleanly
        for len in 0..=33usize.min(ct.len() - 1) {
            n += 1;
            match std::panic::catch_unwind(|| cryptography::decrypt(&ct[..len], k).is_ok()) {
                Ok(false) => {}
                Ok(true) => v.push(("truncation-accepted".into(), format!("the first {len} bytes of the ciphertext decrypt"))),
                Err(_) => v.push(("decrypt-panics-on-a-short-blob".into(), format!("decrypting a blob of {len} bytes panics instead of failing"))),
            }
        }
        let loc = Locator::new(*k);
        n += 1;
        if loc.to_vec() != k.to_byte_array()[..16].to_vec() {
            v.push(("locator".into(), "Locator::new(k) != k[..16]".into()));
        }
        (n, v, ct)
    });
    for (i, r) in res.into_iter().enumerate() {
        let (n, v, ct) = r.unwrap();
        evals += n;
        distinct.insert(ct);
        for (s, d) in v {
            run.violation(&format!("crypto:{s}"), d, json!({"engine": "H17", "tx": items[i].0, "id": items[i].1}), 1);
        }
    }
    // signatures
    let secp = Secp256k1::new();
    let mut keys: Vec<(SecretKey, PublicKey)> = [0xa1u8, 0xb2, 0xc3, 0xd4]
        .iter()
        .map(|b| {
            let sk = SecretKey::from_slice(&[*b; 32]).unwrap();
            (sk, PublicKey::from_secret_key(&secp, &sk))
        })
        .collect();
    // and the negation of the first key: another signer whose public key differs in the parity byte only
    {
        let sk = keys[0].0.negate();
        keys.push((sk, PublicKey::from_secret_key(&secp, &sk)));
    }
    let msgs: Vec<Vec<u8>> = vec![
        vec![],
        b"get subscription info".to_vec(),
        b"get appointment 00112233445566778899aabbccddeeff".to_vec(),
        vec![0u8; 1],
        vec![0xff; 300],
        (0..=255u8).collect(),
    ];
    const ZB: &str = "ybndrfg8ejkmcpqxot1uwisza345h769";
    let mut sig_evals = 0u64;
    for (ki, (sk, pk)) in keys.iter().enumerate() {
        for (mi, m) in msgs.iter().enumerate() {
            let sig = cryptography::sign(m, sk);
            distinct.insert(sig.as_bytes().to_vec());
            sig_evals += 1;
            if cryptography::recover_pk(m, &sig).ok() != Some(*pk) || !cryptography::verify(m, &sig, pk) {
                run.violation("sig:does-not-recover-signer", format!("key #{ki} msg #{mi}"), json!({"engine": "H17"}), 1);
            }
            for (oj, (_, opk)) in keys.iter().enumerate() {
                if oj != ki {
                    sig_evals += 1;
                    if cryptography::verify(m, &sig, opk) {
                        run.violation("sig:verifies-for-other-key", format!("key #{ki} msg #{mi} verifies under key #{oj}"), json!({"engine": "H17"}), 1);
                    }
                }
            }
            // every 1-byte message change
            for i in 0..m.len().min(64) {
                let mut m2 = m.clone();
                m2[i] ^= 0x01;
                sig_evals += 1;
                if cryptography::verify(&m2, &sig, pk) {
                    run.violation("sig:verifies-altered-message", format!("key #{ki} msg #{mi} byte {i}"), json!({"engine": "H17"}), 1);
                }
            }
            let mut m3 = m.clone();
            m3.push(0);
            sig_evals += 1;
            if cryptography::verify(&m3, &sig, pk) {
                run.violation("sig:verifies-extended-message", format!("key #{ki} msg #{mi}"), json!({"engine": "H17"}), 1);
            }
            // every single-character substitution, every truncation
            let chars: Vec<char> = sig.chars().collect();
            for i in 0..chars.len() {
                let subs: Vec<char> = if tier == Tier::Quick { vec!['y', '9', '!'] } else { ZB.chars().chain("!l0".chars()).collect() };
                for c in subs {
                    if c == chars[i] {
                        continue;
                    }
                    let mut s2 = chars.clone();
                    s2[i] = c;
                    let s2: String = s2.into_iter().collect();
                    sig_evals += 1;
                    let r = std::panic::catch_unwind(|| cryptography::verify(m, &s2, pk));
                    match r {
                        Ok(false) => {}
                        Ok(true) => run.violation("sig:altered-signature-verifies", format!("key #{ki} msg #{mi} pos {i} -> {c}"), json!({"engine": "H17"}), 1),
                        Err(_) => run.violation("sig:verify-panics", format!("key #{ki} msg #{mi} pos {i} -> {c:?}"), json!({"engine": "H17"}), 1),
                    }
                }
            }
            // the signature with something added in front of it, behind it, or in the middle (white space above all: what a
            // lenient reader would strip)
            for extra in [" ", "\n", "\t", "\r\n", "\u{a0}", "=", "y", "\0"] {
                for s2 in [format!("{extra}{sig}"), format!("{sig}{extra}"), format!("{extra}{sig}{extra}"), format!("{}{extra}{}", &sig[..sig.len() / 2], &sig[sig.len() / 2..])] {
                    sig_evals += 1;
                    match std::panic::catch_unwind(|| (cryptography::verify(m, &s2, pk), cryptography::recover_pk(m, &s2).ok() == Some(*pk))) {
                        Ok((false, false)) => {}
                        Ok(_) => run.violation("sig:padded-signature-verifies", format!("key #{ki} msg #{mi} signature padded with {extra:?}: {s2:?}"), json!({"engine": "H17"}), 1),
                        Err(_) => run.violation("sig:verify-panics", format!("key #{ki} msg #{mi} padded with {extra:?}"), json!({"engine": "H17"}), 1),
                    }
                }
            }
            for cut in 0..chars.len() {
                let s2: String = chars[..cut].iter().collect();
                sig_evals += 1;
                match std::panic::catch_unwind(|| cryptography::verify(m, &s2, pk)) {
                    Ok(false) => {}
                    Ok(true) => run.violation("sig:truncated-signature-verifies", format!("key #{ki} msg #{mi} len {cut}"), json!({"engine": "H17"}), 1),
                    Err(_) => run.violation("sig:verify-panics", format!("key #{ki} msg #{mi} truncated to {cut}"), json!({"engine": "H17"}), 1),
                }
            }
        }
    }
    run.set("evaluations", json!(evals + sig_evals));
    run.set("distinct_nontrivial", json!(distinct.len()));
    run.set("exhaustive", json!(true));
    run.set("rule", json!("finite grid, fully enumerated: transactions = all shapes with 1-2 inputs, 1-2 outputs, listed script lengths, witness on/off, 3 values; ids incl. two sharing 31 bytes; for each (t,k): round trip, every other id, single-bit flips, truncations/extensions by 1..16; signatures: 4 keys x 6 messages, recovery, cross-key, every 1-byte message change, every single-character substitution, every truncation of the signature, and the signature padded (white space, other characters) in front, behind, on both sides and in the middle. distinct_nontrivial counts distinct ciphertexts + distinct signatures produced"));
    run.set("samples", json!([
        {"tx_shapes": txs.len(), "ids": ids.len()},
        {"example_ciphertext_len": cryptography::encrypt(&txs[0], &ids[0]).unwrap().len()},
        {"example_signature": cryptography::sign(&msgs[1], &keys[0].0)},
    ]));
    run.finish()
}

// =============================================================================================
// C20
// =============================================================================================

#[derive(Clone, Copy, Debug, PartialEq, Eq, Hash)]
enum Src {
    Absent,
    File,
    Cli,
    Both,
}

const SRCS: [Src; 4] = [Src::Absent, Src::File, Src::Cli, Src::Both];

#[derive(Clone, Copy, Debug, PartialEq, Eq)]
enum Kind {
    Str,
    U16,
    Flag,     // file bool + CLI switch; effective = either
    OneShot,  // destructive switch: CLI only
    FileOnly, // no CLI counterpart
}

struct OptDef {
    name: &'static str,
    kind: Kind,
    file_val: &'static str,
    cli_val: &'static str,
}

const OPTS: &[OptDef] = &[
    OptDef { name: "api_bind", kind: Kind::Str, file_val: "10.0.0.1", cli_val: "10.0.0.2" },
    OptDef { name: "api_port", kind: Kind::U16, file_val: "1001", cli_val: "1002" },
    OptDef { name: "rpc_bind", kind: Kind::Str, file_val: "10.0.1.1", cli_val: "10.0.1.2" },
    OptDef { name: "rpc_port", kind: Kind::U16, file_val: "2001", cli_val: "2002" },
    OptDef { name: "btc_rpc_connect", kind: Kind::Str, file_val: "filehost", cli_val: "clihost" },
    OptDef { name: "tor_control_port", kind: Kind::U16, file_val: "3001", cli_val: "3002" },
    OptDef { name: "onion_hidden_service_port", kind: Kind::U16, file_val: "4001", cli_val: "4002" },
    OptDef { name: "debug", kind: Kind::Flag, file_val: "true", cli_val: "" },
    OptDef { name: "deps_debug", kind: Kind::Flag, file_val: "true", cli_val: "" },
    OptDef { name: "tor_support", kind: Kind::Flag, file_val: "true", cli_val: "" },
    OptDef { name: "overwrite_key", kind: Kind::OneShot, file_val: "true", cli_val: "" },
    OptDef { name: "force_update", kind: Kind::OneShot, file_val: "true", cli_val: "" },
    OptDef { name: "subscription_slots", kind: Kind::FileOnly, file_val: "77", cli_val: "" },
    OptDef { name: "subscription_duration", kind: Kind::FileOnly, file_val: "78", cli_val: "" },
    OptDef { name: "expiry_delta", kind: Kind::FileOnly, file_val: "79", cli_val: "" },
    OptDef { name: "min_to_self_delay", kind: Kind::FileOnly, file_val: "80", cli_val: "" },
    OptDef { name: "polling_delta", kind: Kind::FileOnly, file_val: "81", cli_val: "" },
    OptDef { name: "internal_api_bind", kind: Kind::FileOnly, file_val: "10.0.2.1", cli_val: "" },
    OptDef { name: "internal_api_port", kind: Kind::FileOnly, file_val: "5001", cli_val: "" },
];

/// The interacting group, enumerated exhaustively.
#[derive(Clone, Debug)]
struct Group {
    network: Src,
    net_file: &'static str,
    net_cli: &'static str,
    port: Src,
    /// (value in the file, value on the command line)
    port_vals: (u16, u16),
    user: Src,
    password: Src,
    cookie: Src,
}

fn cli_flag(name: &str) -> String {
    format!("--{}", name.replace('_', ""))
}

struct Case {
    toml: String,
    argv: Vec<String>,
    expected: Result<teos::config::Config, ()>,
    /// when the network name is one of bitcoind's own spellings the statement is silent: skip verdict
    dont_care: bool,
    desc: String,
}

fn build_case(g: &Group, others: &[(usize, Src)]) -> Case {
    use teos::config::Config;
    let mut toml = String::new();
    let mut argv: Vec<String> = vec!["teosd".into()];
    let mut exp = Config::default();
    let mut set_str = |name: &str, src: Src, fv: &str, cv: &str, toml: &mut String, argv: &mut Vec<String>| -> Option<String> {
        if matches!(src, Src::File | Src::Both) {
            toml.push_str(&format!("{name} = \"{fv}\"\n"));
        }
        if matches!(src, Src::Cli | Src::Both) {
            argv.push(cli_flag(name));
            argv.push(cv.to_owned());
        }
        match src {
            Src::Absent => None,
            Src::File => Some(fv.to_owned()),
            Src::Cli | Src::Both => Some(cv.to_owned()),
        }
    };
    if let Some(v) = set_str("btc_network", g.network, g.net_file, g.net_cli, &mut toml, &mut argv) {
        exp.btc_network = v;
    }
    if let Some(v) = set_str("btc_rpc_user", g.user, "fileuser", "cliuser", &mut toml, &mut argv) {
        exp.btc_rpc_user = v;
    }
    if let Some(v) = set_str("btc_rpc_password", g.password, "filepass", "clipass", &mut toml, &mut argv) {
        exp.btc_rpc_password = v;
    }
    if let Some(v) = set_str("btc_rpc_cookie", g.cookie, "/file/cookie", "/cli/cookie", &mut toml, &mut argv) {
        exp.btc_rpc_cookie = v;
    }
    // port (u16)
    if matches!(g.port, Src::File | Src::Both) {
        toml.push_str(&format!("btc_rpc_port = {}\n", g.port_vals.0));
    }
    if matches!(g.port, Src::Cli | Src::Both) {
        argv.push(cli_flag("btc_rpc_port"));
        argv.push(g.port_vals.1.to_string());
    }
    let port_set: Option<u16> = match g.port {
        Src::Absent => None,
        Src::File => Some(g.port_vals.0),
        _ => Some(g.port_vals.1),
    };
    for (i, src) in others {
        let o = &OPTS[*i];
        match o.kind {
            Kind::Str | Kind::U16 => {
                if matches!(src, Src::File | Src::Both) {
                    if o.kind == Kind::Str {
                        toml.push_str(&format!("{} = \"{}\"\n", o.name, o.file_val));
                    } else {
                        toml.push_str(&format!("{} = {}\n", o.name, o.file_val));
                    }
                }
                if matches!(src, Src::Cli | Src::Both) {
                    argv.push(cli_flag(o.name));
                    argv.push(o.cli_val.to_owned());
                }
                let eff = match src {
                    Src::Absent => None,
                    Src::File => Some(o.file_val),
                    _ => Some(o.cli_val),
                };
                if let Some(v) = eff {
                    match o.name {
                        "api_bind" => exp.api_bind = v.into(),
                        "api_port" => exp.api_port = v.parse().unwrap(),
                        "rpc_bind" => exp.rpc_bind = v.into(),
                        "rpc_port" => exp.rpc_port = v.parse().unwrap(),
                        "btc_rpc_connect" => exp.btc_rpc_connect = v.into(),
                        "tor_control_port" => exp.tor_control_port = v.parse().unwrap(),
                        "onion_hidden_service_port" => exp.onion_hidden_service_port = v.parse().unwrap(),
                        _ => unreachable!(),
                    }
                }
            }
            Kind::Flag | Kind::OneShot => {
                if matches!(src, Src::File | Src::Both) {
                    toml.push_str(&format!("{} = true\n", o.name));
                }
                if matches!(src, Src::Cli | Src::Both) {
                    argv.push(cli_flag(o.name));
                }
                let eff = match o.kind {
                    Kind::Flag => *src != Src::Absent,
                    _ => matches!(src, Src::Cli | Src::Both),
                };
                match o.name {
                    "debug" => exp.debug = eff,
                    "deps_debug" => exp.deps_debug = eff,
                    "tor_support" => exp.tor_support = eff,
                    "overwrite_key" => exp.overwrite_key = eff,
                    "force_update" => exp.force_update = eff,
                    _ => unreachable!(),
                }
            }
            Kind::FileOnly => {
                if matches!(src, Src::File | Src::Both) {
                    if o.name == "internal_api_bind" {
                        toml.push_str(&format!("{} = \"{}\"\n", o.name, o.file_val));
                        exp.internal_api_bind = o.file_val.into();
                    } else {
                        toml.push_str(&format!("{} = {}\n", o.name, o.file_val));
                        let v: u32 = o.file_val.parse().unwrap();
                        match o.name {
                            "subscription_slots" => exp.subscription_slots = v,
                            "subscription_duration" => exp.subscription_duration = v,
                            "expiry_delta" => exp.expiry_delta = v,
                            "min_to_self_delay" => exp.min_to_self_delay = v as u16,
                            "polling_delta" => exp.polling_delta = v as u16,
                            "internal_api_port" => exp.internal_api_port = v,
                            _ => unreachable!(),
                        }
                    }
                }
            }
        }
    }
    // verification rules
    let has_userpass = !exp.btc_rpc_user.is_empty() && !exp.btc_rpc_password.is_empty();
    let any_userpass = !exp.btc_rpc_user.is_empty() || !exp.btc_rpc_password.is_empty();
    let has_cookie = !exp.btc_rpc_cookie.is_empty();
    let auth_ok = (has_userpass && !has_cookie) || (has_cookie && !any_userpass);
    let (norm, default_port, known, dont_care) = match exp.btc_network.as_str() {
        "mainnet" => ("main", 8332u16, true, false),
        "testnet" => ("test", 18332, true, false),
        "signet" => ("signet", 38332, true, false),
        "regtest" => ("regtest", 18443, true, false),
        "main" | "test" => ("", 0, false, true),
        _ => ("", 0, false, false),
    };
    let expected = if auth_ok && known {
        exp.btc_network = norm.into();
        exp.btc_rpc_port = port_set.unwrap_or(default_port);
        Ok(exp)
    } else {
        Err(())
    };
    Case {
        desc: format!("group={g:?} others={:?}", others.iter().map(|(i, s)| (OPTS[*i].name, *s)).collect::<Vec<_>>()),
        toml,
        argv,
        expected,
        dont_care,
    }
}

fn run_case(c: &Case, dir: &std::path::Path, worker: usize) -> Option<(String, String)> {
    use structopt::StructOpt;
    use teos::config::{self, Config, Opt};
    let path = dir.join(format!("teos-{worker}.toml"));
    std::fs::write(&path, &c.toml).unwrap();
    let mut conf = config::from_file::<Config>(&path);
    let opt = match Opt::from_iter_safe(c.argv.iter()) {
        Ok(o) => o,
        Err(e) => return Some(("cli:valid-arguments-refused".into(), format!("{} :: {e}", c.desc))),
    };
    conf.patch_with_options(opt);
    let r = conf.verify();
    if c.dont_care {
        return None;
    }
    match (&c.expected, r) {
        (Ok(exp), Ok(())) => {
            if *exp != conf {
                let a = serde_json::to_value(exp).unwrap();
                let b = serde_json::to_value(&conf).unwrap();
                let diff: Vec<String> = a
                    .as_object()
                    .unwrap()
                    .iter()
                    .filter(|(k, v)| b[k.as_str()] != **v)
                    .map(|(k, v)| format!("{k}: expected {v} got {}", b[k.as_str()]))
                    .collect();
                let field = diff.first().map(|d| d.split(':').next().unwrap().to_owned()).unwrap_or_default();
                Some((format!("config:effective-value-wrong:{field}"), format!("{} :: {diff:?}", c.desc)))
            } else {
                None
            }
        }
        (Err(()), Err(_)) => None,
        (Ok(_), Err(e)) => Some(("config:valid-configuration-refused".into(), format!("{} :: {e}", c.desc))),
        (Err(()), Ok(())) => Some(("config:unsafe-configuration-accepted".into(), format!("{} :: auth user={:?} pass={:?} cookie={:?} network={:?}", c.desc, conf.btc_rpc_user, conf.btc_rpc_password, conf.btc_rpc_cookie, conf.btc_network))),
    }
}

pub fn c20(tier: Tier) -> i32 {
    let run = Run::new("C20", "exploration", tier);
    let mut cases: Vec<Case> = Vec::new();
    let nets: [(&'static str, &'static str); 7] = [
        ("mainnet", "regtest"),
        ("testnet", "signet"),
        ("signet", "mainnet"),
        ("regtest", "testnet"),
        ("bitcoin", "regtest"),
        ("regtest", ""),
        ("Mainnet", "liquid"),
    ];
    let default_group = Group { network: Src::File, net_file: "regtest", net_cli: "signet", port: Src::Absent, port_vals: (6001, 6002), user: Src::File, password: Src::File, cookie: Src::Absent };
    // 1. interacting group, exhaustive
    for (nf, nc) in nets.iter() {
        for network in SRCS {
            for port in SRCS {
                // explicit ports include values that are another network's default
                let port_values: Vec<(u16, u16)> = if port == Src::Absent { vec![(6001, 6002)] } else { vec![(6001, 6002), (8332, 18443), (38332, 18332)] };
                for port_vals in port_values {
                    for user in SRCS {
                        for password in SRCS {
                            for cookie in SRCS {
                                let g = Group { network, net_file: nf, net_cli: nc, port, port_vals, user, password, cookie };
                                cases.push(build_case(&g, &[]));
                            }
                        }
                    }
                }
            }
        }
    }
    // bitcoind's own spellings: recorded as don't-care
    for n in ["main", "test"] {
        let g = Group { net_file: n, ..default_group.clone() };
        cases.push(build_case(&g, &[]));
    }
    let group_cases = cases.len();
    // 2. the other options: <= k deviations from each uniform background
    let k = if tier == Tier::Quick { 2 } else { 4 };
    let n = OPTS.len();
    let valid_srcs = |i: usize| -> Vec<Src> {
        match OPTS[i].kind {
            Kind::FileOnly => vec![Src::Absent, Src::File],
            _ => SRCS.to_vec(),
        }
    };
    for bg in SRCS {
        let base: Vec<(usize, Src)> = (0..n)
            .map(|i| (i, if valid_srcs(i).contains(&bg) { bg } else if bg == Src::Both { Src::File } else { Src::Absent }))
            .collect();
        // choose up to k positions to deviate
        let mut idx_sets: Vec<Vec<usize>> = vec![vec![]];
        for size in 1..=k {
            let mut comb: Vec<usize> = (0..size).collect();
            loop {
                idx_sets.push(comb.clone());
                let mut i = size;
                while i > 0 && comb[i - 1] == n - size + i - 1 {
                    i -= 1;
                }
                if i == 0 {
                    break;
                }
                comb[i - 1] += 1;
                for j in i..size {
                    comb[j] = comb[j - 1] + 1;
                }
            }
        }
        for set in idx_sets {
            // all assignments of deviating values
            let mut assigns: Vec<Vec<(usize, Src)>> = vec![vec![]];
            for &i in set.iter() {
                let mut next = Vec::new();
                for a in assigns.iter() {
                    for s in valid_srcs(i) {
                        if s != base[i].1 {
                            let mut a2 = a.clone();
                            a2.push((i, s));
                            next.push(a2);
                        }
                    }
                }
                assigns = next;
            }
            for a in assigns {
                let mut others = base.clone();
                for (i, s) in a {
                    others[i].1 = s;
                }
                cases.push(build_case(&default_group, &others));
            }
        }
    }
    let dir = std::path::PathBuf::from("/dev/shm").join(format!("verif-c20-{}", std::process::id()));
    std::fs::create_dir_all(&dir).unwrap();
    let counter = std::sync::atomic::AtomicUsize::new(0);
    thread_local! { static WID: std::cell::Cell<usize> = const { std::cell::Cell::new(usize::MAX) }; }
    let (res, _) = crate::explore::par_map(&cases, None, |_, c| {
        let w = WID.with(|w| {
            if w.get() == usize::MAX {
                w.set(counter.fetch_add(1, std::sync::atomic::Ordering::Relaxed));
            }
            w.get()
        });
        run_case(c, &dir, w)
    });
    let mut distinct: HashSet<String> = HashSet::new();
    let mut refused = 0u64;
    for (c, r) in cases.iter().zip(res.into_iter()) {
        distinct.insert(format!("{}|{:?}", c.toml, c.argv));
        if c.expected.is_err() {
            refused += 1;
        }
        if let Some(Some((sig, detail))) = Some(r.unwrap()) {
            run.violation(&sig, detail, json!({"engine": "H20", "toml": c.toml, "argv": c.argv}), c.argv.len());
        }
    }
    let _ = std::fs::remove_dir_all(&dir);
    run.set("evaluations", json!(cases.len()));
    run.set("distinct_nontrivial", json!(distinct.len()));
    run.set("interacting_group_cases", json!(group_cases));
    run.set("cases_expected_to_be_refused", json!(refused));
    run.set("exhaustive", json!(true));
    run.set("rule", json!(format!("finite grid, fully enumerated through the real config::from_file (real TOML file), Opt::from_iter_safe (real argv), patch_with_options and verify: (a) network x port x user x password x cookie, each in {{absent,file,cli,both}}, x 7 (file,cli) network name pairs incl. unknown/empty names; (b) every combination in which at most {k} of the other {} options deviate from each of the four uniform backgrounds; oracle: full Config equality with 'CLI else file else default', one-shot switches CLI only, refusal unless exactly one auth method and a known network, default port per network unless set. distinct = distinct (file, argv) pairs", OPTS.len())));
    run.set("samples", json!([
        {"toml": cases[37].toml, "argv": cases[37].argv, "expected_ok": cases[37].expected.is_ok()},
        {"toml": cases[cases.len() - 1].toml, "argv": cases[cases.len() - 1].argv, "expected_ok": cases[cases.len() - 1].expected.is_ok()},
    ]));
    run.assume("'main'/'test' (bitcoind's own spellings) are neither required nor forbidden by the statement: recorded, not judged");
    run.finish()
}
