//! Engine T: one world = simulated environment + the real tower + observation of every step.

use std::panic::{catch_unwind, AssertUnwindSafe};
use std::sync::{Arc, Mutex as StdMutex};

use bitcoin::{BlockHash, Transaction, Txid};
use lightning::chain;
use serde_json::json;

use teos_common::appointment::{Appointment, Locator};
use teos_common::cryptography;
use teos_common::protos as common_msgs;

use crate::sim::{build_tx, txid_of, Env, Replacement, RpcRecord, TxName};
use crate::tower::{user_keys, Api, ApiErr, DbView, Keys, ScratchDb, Tower, TowerCfg};

/// What the encrypted blob of a submitted appointment contains.
#[derive(Clone, Copy, Debug, PartialEq, Eq, Hash, PartialOrd, Ord, serde::Serialize, serde::Deserialize)]
pub enum Blob {
    /// encrypt(P(k), txid(D(k)))
    Valid,
    /// encrypt(PAlt(k), ..): another valid penalty (used for replacements)
    Alt,
    /// encrypt(PLarge(k), ..): blob longer than 2048 bytes (two slots)
    Large,
    /// encrypt(PBad(k), ..): decrypts fine, the node refuses the transaction
    Bad,
    /// encrypt(P(k), txid(D(other))): AEAD failure under the real dispute id
    WrongKey,
    /// ciphertext (under the right key) of bytes that are not a transaction
    NonTx,
    /// arbitrary bytes of the given length (AEAD failure)
    Raw(u16),
    /// ciphertext (right key) of P(k)'s bytes followed by one more byte: authenticates, is not a transaction
    TxPlusTrailing,
}

pub fn make_blob(disp: u8, blob: Blob) -> Vec<u8> {
    let d = txid_of(TxName::D(disp));
    match blob {
        Blob::Valid => cryptography::encrypt(&build_tx(TxName::P(disp)), &d).unwrap(),
        Blob::Alt => cryptography::encrypt(&build_tx(TxName::PAlt(disp)), &d).unwrap(),
        Blob::Large => cryptography::encrypt(&build_tx(TxName::PLarge(disp)), &d).unwrap(),
        Blob::Bad => cryptography::encrypt(&build_tx(TxName::PBad(disp)), &d).unwrap(),
        Blob::WrongKey => {
            let other = txid_of(TxName::D(if disp == 1 { 2 } else { 1 }));
            cryptography::encrypt(&build_tx(TxName::P(disp)), &other).unwrap()
        }
        Blob::NonTx => aead_encrypt(b"this is not a bitcoin transaction", &d),
        Blob::TxPlusTrailing => {
            let mut bytes = bitcoin::consensus::serialize(&build_tx(TxName::P(disp)));
            bytes.push(0);
            aead_encrypt(&bytes, &d)
        }
        Blob::Raw(n) => (0..n).map(|i| (i % 251) as u8 ^ 0x5a).collect(),
    }
}

/// The harness's own ChaCha20-Poly1305 (key = SHA256(dispute txid), nonce = 0) of arbitrary bytes, independent of the
/// implementation's `encrypt` (the documented scheme of the protocol).
pub fn aead_encrypt(bytes: &[u8], key: &Txid) -> Vec<u8> {
    use bitcoin::hashes::{sha256, Hash};
    use chacha20poly1305::aead::{Aead, NewAead};
    use chacha20poly1305::{ChaCha20Poly1305, Key, Nonce};
    let k = sha256::Hash::hash(key.as_byte_array());
    ChaCha20Poly1305::new(Key::from_slice(k.as_byte_array())).encrypt(&Nonce::default(), bytes).unwrap()
}

/// What a blob of this kind must decrypt to under its dispute's id (None: it must fail), known from how it was made
/// rather than from the implementation's `decrypt`.
pub fn expected_plain(disp: u8, blob: Blob) -> Option<Txid> {
    match blob {
        Blob::Valid => Some(crate::sim::txid_of(TxName::P(disp))),
        Blob::Alt => Some(crate::sim::txid_of(TxName::PAlt(disp))),
        Blob::Large => Some(crate::sim::txid_of(TxName::PLarge(disp))),
        Blob::Bad => Some(crate::sim::txid_of(TxName::PBad(disp))),
        Blob::WrongKey | Blob::NonTx | Blob::Raw(_) | Blob::TxPlusTrailing => None,
    }
}

#[derive(Clone, Debug, PartialEq, Eq, Hash, PartialOrd, Ord, serde::Serialize, serde::Deserialize)]
pub enum MineSel {
    Empty,
    Mempool,
    Txs(Vec<TxName>),
}

#[derive(Clone, Debug, PartialEq, Eq, Hash, PartialOrd, Ord, serde::Serialize, serde::Deserialize)]
pub enum Ev {
    Register(u8),
    Add { user: u8, disp: u8, blob: Blob, tsd: u32 },
    /// A block is mined; the tower is not polled yet.
    Mine(MineSel),
    /// The tower's chain monitor runs once.
    Poll,
    /// Mine + Poll.
    MineP(MineSel),
    /// Somebody else broadcasts a transaction.
    External(TxName),
    /// The node drops a transaction from its mempool (expired, replaced, evicted).
    Evict(TxName),
    /// The last `depth` blocks are replaced by `depth + 1` new ones (no poll).
    Reorg { depth: u8, how: Replacement },
    /// Reorg + Poll.
    ReorgP { depth: u8, how: Replacement },
    /// n x (empty block, poll)
    Advance(u32),
    /// n empty blocks, then a single poll
    AdvanceBulk(u32),
    Restart,
}

#[derive(Clone, Debug)]
pub enum ApiOutcome {
    Register(Result<common_msgs::RegisterResponse, ApiErr>),
    Add(Result<common_msgs::AddAppointmentResponse, ApiErr>),
}

/// A chain event delivered to the listeners, or an RPC the tower made, in the order they happened.
#[derive(Clone, Debug, PartialEq, Eq)]
pub enum Trace {
    Connect(BlockHash, u32),
    Disconnect(BlockHash, u32),
    Rpc(RpcRecord),
}

#[derive(Clone, Debug)]
pub struct StepObs {
    pub ev: Ev,
    pub api: Option<ApiOutcome>,
    pub trace: Vec<Trace>,
    pub panic: Option<String>,
    pub boot_error: Option<String>,
    pub db_before: DbView,
    pub db_after: DbView,
    /// Tower height (gatekeeper's) before the step.
    pub appt: Option<Appointment>,
    pub user_sig: Option<String>,
}

impl StepObs {
    pub fn rpcs(&self) -> Vec<&RpcRecord> {
        self.trace
            .iter()
            .filter_map(|t| if let Trace::Rpc(r) = t { Some(r) } else { None })
            .collect()
    }
    pub fn connects(&self) -> Vec<(BlockHash, u32)> {
        self.trace
            .iter()
            .filter_map(|t| if let Trace::Connect(h, n) = t { Some((*h, *n)) } else { None })
            .collect()
    }
    pub fn has_disconnect(&self) -> bool {
        self.trace.iter().any(|t| matches!(t, Trace::Disconnect(..)))
    }
}

/// Shared log of listener events, interleaved with the RPC log through positions.
#[derive(Default)]
pub struct EventLog {
    pub events: Vec<(usize, bool, BlockHash, u32)>, // (rpc_log length at that moment, connect?, hash, height)
    /// how many of them the listeners have completely handled
    pub done: usize,
    /// run on the polling thread right after the listeners have handled the event with that (1-based) number: how the
    /// sequential references of engine S place a request between two chain events of one poll
    pub hooks: Vec<(usize, Box<dyn FnOnce() + Send>)>,
}

impl EventLog {
    fn completed(log: &Arc<StdMutex<EventLog>>, idx: usize) {
        let due: Vec<Box<dyn FnOnce() + Send>> = {
            let mut g = log.lock().unwrap();
            g.done = idx;
            let mut due = Vec::new();
            let mut i = 0;
            while i < g.hooks.len() {
                if g.hooks[i].0 == idx {
                    due.push(g.hooks.remove(i).1);
                } else {
                    i += 1;
                }
            }
            due
        };
        for h in due {
            h();
        }
    }
}

pub struct RecordingListener<L: chain::Listen> {
    pub inner: L,
    pub env: Env,
    pub log: Arc<StdMutex<EventLog>>,
}

impl<L: chain::Listen> chain::Listen for RecordingListener<L> {
    fn filtered_block_connected(
        &self,
        header: &bitcoin::block::Header,
        txdata: &chain::transaction::TransactionData,
        height: u32,
    ) {
        let pos = self.env.lock().rpc_log.len();
        let idx = {
            let mut g = self.log.lock().unwrap();
            g.events.push((pos, true, header.block_hash(), height));
            g.events.len()
        };
        self.inner.filtered_block_connected(header, txdata, height);
        EventLog::completed(&self.log, idx);
    }
    fn block_disconnected(&self, header: &bitcoin::block::Header, height: u32) {
        let pos = self.env.lock().rpc_log.len();
        let idx = {
            let mut g = self.log.lock().unwrap();
            g.events.push((pos, false, header.block_hash(), height));
            g.events.len()
        };
        self.inner.block_disconnected(header, height);
        EventLog::completed(&self.log, idx);
    }
}

pub struct World {
    pub cfg: TowerCfg,
    pub env: Env,
    pub db: ScratchDb,
    pub tower: Option<Tower>,
    pub log: Arc<StdMutex<EventLog>>,
    rpc_pos: usize,
    ev_pos: usize,
    pub dead: bool,
    reader: std::cell::RefCell<Option<rusqlite::Connection>>,
}

pub fn panic_message(p: &Box<dyn std::any::Any + Send>) -> String {
    if let Some(s) = p.downcast_ref::<&str>() {
        s.to_string()
    } else if let Some(s) = p.downcast_ref::<String>() {
        s.clone()
    } else if let Some(c) = p.downcast_ref::<teos_common::verif::CrashMarker>() {
        format!("<crash marker {} #{}>", c.site, c.index)
    } else {
        "<non-string panic payload>".to_owned()
    }
}

thread_local! {
    pub static LAST_PANIC_LOCATION: std::cell::RefCell<Option<String>> = const { std::cell::RefCell::new(None) };
}

/// Installs a quiet panic hook that records the location of the last panic of each thread.
pub fn install_panic_hook() {
    std::panic::set_hook(Box::new(|info| {
        let loc = info
            .location()
            .map(|l| {
                let f = l.file();
                let f = f.rsplit('/').next().unwrap_or(f);
                format!("{}:{}", f, l.line())
            })
            .unwrap_or_default();
        let is_marker = info.payload().downcast_ref::<teos_common::verif::CrashMarker>().is_some()
            || info.payload().downcast_ref::<crate::sched::Teardown>().is_some();
        let in_harness = info.location().map_or(false, |l| l.file().starts_with("src/"));
        if !is_marker && (in_harness || std::env::var("VERIF_SHOW_PANICS").is_ok()) {
            eprintln!("[panic] {info}");
        }
        // the most recent panic raised by the code under test (any thread): if the explorer itself then dies
        // of it (a site no engine catches), main reports it as a verdict on that code, not as a machinery error
        if !is_marker && !in_harness && info.location().map_or(false, |l| l.file().contains("/repo/") || l.file().starts_with("teos") || l.file().starts_with("watchtower-plugin")) {
            if let Ok(mut g) = LAST_REPO_PANIC.lock() {
                *g = Some(format!("{loc}: {}", info.to_string().lines().last().unwrap_or("").chars().take(120).collect::<String>()));
            }
        }
        let _ = LAST_PANIC_LOCATION.try_with(|l| *l.borrow_mut() = Some(loc));
    }));
}

pub static LAST_REPO_PANIC: StdMutex<Option<String>> = StdMutex::new(None);

// ---- self-deadlock detector for the engines that run the tower on one (uncontrolled) thread -------------------
//
// Engines T, crash and H run a world on a single thread; nothing else touches that world, so the only way a lock
// acquisition can block there is the thread locking a mutex it already holds (std's Mutex would hang for ever
// and take the explorer with it). The hook table below turns that into a panic of the step, i.e. a verdict.
struct SelfLockDetector {
    held: StdMutex<std::collections::HashMap<std::thread::ThreadId, Vec<usize>>>,
    timeouts: std::sync::atomic::AtomicU64,
}

impl teos::verif_sync::Hooks for SelfLockDetector {
    fn created(&self, _id: usize, _kind: &'static str, _at: &'static std::panic::Location<'static>) {}
    fn before_lock(&self, id: usize) {
        let me = std::thread::current().id();
        let mut g = self.held.lock().unwrap_or_else(|p| p.into_inner());
        let v = g.entry(me).or_default();
        if v.contains(&id) {
            drop(g);
            panic!("self-deadlock: the thread locks a mutex it already holds (it would wait for itself for ever)");
        }
        v.push(id);
    }
    fn after_unlock(&self, id: usize) {
        let me = std::thread::current().id();
        let mut g = self.held.lock().unwrap_or_else(|p| p.into_inner());
        if let Some(v) = g.get_mut(&me) {
            if let Some(pos) = v.iter().rposition(|x| *x == id) {
                v.remove(pos);
            }
        }
    }
    fn wait(&self, _condvar: usize, _mutex: usize) {
        panic!("blocked for ever: a condition is waited for on the only thread there is");
    }
    fn wait_timeout(&self, _condvar: usize, _mutex: usize) -> bool {
        // nobody else is there to notify: the time-out elapses (a wait that is re-armed for ever is a verdict as well)
        // (consecutive ones within one step of a world: `ensure_self_lock_detector` is called at the start of every step)
        if TIMEOUTS_THIS_STEP.with(|t| {
            t.set(t.get() + 1);
            t.get()
        }) > 2000
        {
            panic!("blocked for ever: a timed wait on the only thread there is has been re-armed 2000 times");
        }
        true
    }
    fn notify(&self, _condvar: usize, _all: bool) {}
    fn atomic(&self, _id: usize, _store: bool) {}
}

thread_local! {
    static DETECTOR_ON: std::cell::Cell<bool> = const { std::cell::Cell::new(false) };
    static TIMEOUTS_THIS_STEP: std::cell::Cell<u64> = const { std::cell::Cell::new(0) };
}

/// (Re)installs the detector on the calling thread unless the thread runs under the controlled scheduler.
pub fn ensure_self_lock_detector() {
    TIMEOUTS_THIS_STEP.with(|t| t.set(0));
    if crate::sched::is_controlled_thread() {
        return;
    }
    if !DETECTOR_ON.with(|d| d.get()) {
        teos::verif_sync::set_thread_hooks(Some(Arc::new(SelfLockDetector { held: StdMutex::new(Default::default()), timeouts: Default::default() })));
        DETECTOR_ON.with(|d| d.set(true));
    }
}

/// The scheduler's set-up phase replaces and then removes the thread's hook table.
pub fn self_lock_detector_removed() {
    DETECTOR_ON.with(|d| d.set(false));
}

pub fn take_panic_location() -> String {
    LAST_PANIC_LOCATION
        .try_with(|l| l.borrow_mut().take())
        .ok()
        .flatten()
        .unwrap_or_default()
}

impl World {
    pub fn new(cfg: TowerCfg) -> World {
        let env = Env::new(cfg.txindex);
        World {
            cfg,
            env,
            db: ScratchDb::new(),
            tower: None,
            log: Arc::new(StdMutex::new(EventLog::default())),
            rpc_pos: 0,
            ev_pos: 0,
            dead: false,
            reader: std::cell::RefCell::new(None),
        }
    }

    pub fn boot(&mut self) -> Result<(), String> {
        ensure_self_lock_detector();
        self.tower = None;
        let env = self.env.clone();
        let path = self.db.path.clone();
        let cfg = self.cfg;
        let log = self.log.clone();
        match catch_unwind(AssertUnwindSafe(|| Tower::boot_with_log(&env, &path, &cfg, log))) {
            Ok(Ok(t)) => {
                self.tower = Some(t);
                Ok(())
            }
            Ok(Err(e)) => Err(format!("boot error: {e:?}")),
            Err(p) => Err(format!("boot panic: {} @{}", panic_message(&p), take_panic_location())),
        }
    }

    pub fn api(&self) -> Api {
        Api(self.tower.as_ref().unwrap().api.clone())
    }

    pub fn db_view(&self) -> DbView {
        let mut r = self.reader.borrow_mut();
        if r.is_none() {
            *r = Some(DbView::open(&self.db.path));
        }
        DbView::read_conn(r.as_ref().unwrap())
    }

    pub fn chain_height(&self) -> u32 {
        self.env.lock().height()
    }

    /// Collects the trace (listener events + RPCs) produced since the last call.
    pub fn drain_trace(&mut self) -> Vec<Trace> {
        let env = self.env.lock();
        let log = self.log.lock().unwrap();
        let mut out = Vec::new();
        let mut rp = self.rpc_pos;
        for (pos, connect, hash, height) in log.events[self.ev_pos..].iter() {
            while rp < *pos {
                out.push(Trace::Rpc(env.rpc_log[rp].clone()));
                rp += 1;
            }
            out.push(if *connect {
                Trace::Connect(*hash, *height)
            } else {
                Trace::Disconnect(*hash, *height)
            });
        }
        while rp < env.rpc_log.len() {
            out.push(Trace::Rpc(env.rpc_log[rp].clone()));
            rp += 1;
        }
        self.rpc_pos = rp;
        self.ev_pos = log.events.len();
        out
    }

    pub fn make_appointment(user: &Keys, disp: u8, blob: Blob, tsd: u32) -> (Appointment, String) {
        let locator = Locator::new(txid_of(TxName::D(disp)));
        let a = Appointment::new(locator, make_blob(disp, blob), tsd);
        let mut sig = user.sign(&a.to_vec());
        if tsd == u32::MAX {
            // the same signature in its other valid rendering (the zbase32 decoder is case-insensitive): whatever
            // string the user sent is what the tower stores, returns and signs its receipt over
            sig = sig.to_ascii_uppercase();
        }
        (a, sig)
    }

    fn mine_sel(&self, sel: &MineSel) {
        let mut c = self.env.lock();
        match sel {
            MineSel::Empty => {
                c.mine(vec![]);
            }
            MineSel::Mempool => {
                c.mine_mempool();
            }
            MineSel::Txs(names) => {
                let txs: Vec<Transaction> = names.iter().map(|n| build_tx(*n)).collect();
                c.mine(txs);
            }
        }
    }

    /// Applies one event. Panics inside the tower are caught and reported in the observation.
    pub fn apply(&mut self, ev: &Ev) -> StepObs {
        ensure_self_lock_detector();
        let db_before = self.db_view();
        let mut obs = StepObs {
            ev: ev.clone(),
            api: None,
            trace: vec![],
            panic: None,
            boot_error: None,
            db_before,
            db_after: DbView::default(),
            appt: None,
            user_sig: None,
        };
        let r = catch_unwind(AssertUnwindSafe(|| match ev {
            Ev::Register(u) => {
                let k = user_keys(*u);
                Some(ApiOutcome::Register(self.api().register(&k)))
            }
            Ev::Add { user, disp, blob, tsd } => {
                let k = user_keys(*user);
                let (a, sig) = World::make_appointment(&k, *disp, *blob, *tsd);
                Some(ApiOutcome::Add(self.api().add_appointment(&a, sig)))
            }
            Ev::Mine(sel) => {
                self.mine_sel(sel);
                None
            }
            Ev::Poll => {
                self.tower.as_mut().unwrap().poll();
                None
            }
            Ev::MineP(sel) => {
                self.mine_sel(sel);
                self.tower.as_mut().unwrap().poll();
                None
            }
            Ev::External(n) => {
                let _ = self.env.lock().submit(&build_tx(*n));
                None
            }
            Ev::Evict(n) => {
                self.env.lock().mempool.remove(&crate::sim::txid_of(*n));
                None
            }
            Ev::Reorg { depth, how } => {
                self.env.lock().reorg(*depth as u32, *how);
                None
            }
            Ev::ReorgP { depth, how } => {
                self.env.lock().reorg(*depth as u32, *how);
                self.tower.as_mut().unwrap().poll();
                None
            }
            Ev::Advance(n) => {
                for _ in 0..*n {
                    self.env.lock().mine(vec![]);
                    self.tower.as_mut().unwrap().poll();
                }
                None
            }
            Ev::AdvanceBulk(n) => {
                for _ in 0..*n {
                    self.env.lock().mine(vec![]);
                }
                self.tower.as_mut().unwrap().poll();
                None
            }
            Ev::Restart => None,
        }));
        match r {
            Ok(api) => obs.api = api,
            Err(p) => {
                obs.panic = Some(format!("{} @{}", panic_message(&p), take_panic_location()));
                self.dead = true;
            }
        }
        if let Ev::Add { user, disp, blob, tsd } = ev {
            let (a, sig) = World::make_appointment(&user_keys(*user), *disp, *blob, *tsd);
            obs.appt = Some(a);
            obs.user_sig = Some(sig);
        }
        if *ev == Ev::Restart {
            if let Err(e) = self.boot() {
                obs.boot_error = Some(e);
                self.dead = true;
            } else {
                self.dead = false;
            }
        }
        obs.trace = self.drain_trace();
        obs.db_after = self.db_view();
        obs
    }

    pub fn fingerprint_parts(&self) -> (String, String, String) {
        let db = self.db_view().canonical();
        let snap = if self.dead {
            "<dead>".to_owned()
        } else {
            match catch_unwind(AssertUnwindSafe(|| self.tower.as_ref().map(|t| t.snapshot()))) {
                Ok(Some(s)) => s,
                Ok(None) => "<down>".into(),
                Err(_) => "<poisoned>".into(),
            }
        };
        let env = self.env.lock().fingerprint();
        (db, snap, env)
    }
}

pub fn describe_history(h: &[Ev]) -> serde_json::Value {
    json!(h.iter().map(|e| format!("{e:?}")).collect::<Vec<_>>())
}
