//! Engine T model: histories over an event alphabet, executed on a fresh world, judged by `Spec`.

use serde_json::json;

use crate::explore::{fingerprint, Model, StepResult};
use crate::sim::{build_tx, Replacement, TxName, BASE_HEIGHT};
#[allow(unused_imports)]
use crate::world::Trace;
use crate::spec::{Spec, Viol};
use crate::tower::TowerCfg;
use crate::world::{Blob, Ev, MineSel, World};

#[derive(Clone, Debug)]
pub struct Alphabet {
    pub users: Vec<u8>,
    pub disps: Vec<u8>,
    /// (blob kind, costs a deviation)
    pub blobs: Vec<(Blob, bool)>,
    pub tsds: Vec<u32>,
    pub max_registers_per_user: usize,
    pub max_adds: usize,
    /// Mine and Poll as separate events (multi-block polls, requests between block and poll).
    pub split_poll: bool,
    pub mine_empty: bool,
    pub mine_mempool: bool,
    pub mine_dispute: bool,
    pub mine_dispute_and_penalty: bool,
    pub externals: Vec<TxName>,
    /// transactions the node may drop from its mempool (each costs a deviation)
    pub evictions: Vec<TxName>,
    /// (depth, replacement); each costs a deviation
    pub reorgs: Vec<(u8, Replacement)>,
    pub advances: Vec<u32>,
    pub bulk_advances: Vec<u32>,
    pub restart: bool,
    pub max_deviations: u32,
}

impl Alphabet {
    pub fn basic() -> Self {
        Alphabet {
            users: vec![1],
            disps: vec![1],
            blobs: vec![(Blob::Valid, false)],
            tsds: vec![42],
            max_registers_per_user: 1,
            max_adds: 2,
            split_poll: false,
            mine_empty: true,
            mine_mempool: true,
            mine_dispute: true,
            mine_dispute_and_penalty: false,
            externals: vec![],
            evictions: vec![],
            reorgs: vec![],
            advances: vec![],
            bulk_advances: vec![],
            restart: false,
            max_deviations: 1,
        }
    }
}

fn deviation_cost(ev: &Ev, a: &Alphabet) -> u32 {
    match ev {
        Ev::Add { blob, .. } => a.blobs.iter().find(|(b, _)| b == blob).map_or(0, |(_, d)| *d as u32),
        Ev::Reorg { .. } | Ev::ReorgP { .. } | Ev::Restart | Ev::External(_) | Ev::Evict(_) => 1,
        _ => 0,
    }
}

pub struct TowerModel {
    pub label: String,
    pub cfg: TowerCfg,
    /// Events applied before the search starts (the seed state).
    pub seed: Vec<Ev>,
    pub alphabet: Alphabet,
    /// Which properties' violations this model reports.
    pub props: Vec<&'static str>,
    pub probe: bool,
    /// C06: apply the forgery matrix in the state reached (Some(full set of mutations?))
    pub forgery: Option<bool>,
}

pub static FORGED_REQUESTS: std::sync::atomic::AtomicU64 = std::sync::atomic::AtomicU64::new(0);

pub struct Executed {
    pub world: World,
    pub spec: Spec,
    pub viols: Vec<Viol>,
    pub last_outcome: String,
}

impl TowerModel {
    /// Runs seed + history. Only violations of the last executed step are kept.
    pub fn execute(&self, history: &[Ev]) -> Executed {
        let mut world = World::new(self.cfg);
        let mut viols = Vec::new();
        if let Err(e) = world.boot() {
            viols.push(Viol {
                props: &["C03", "C11"],
                sig: "boot-failed:initial".into(),
                detail: e,
            });
            let spec = Spec::new(&world);
            return Executed { world, spec, viols, last_outcome: "boot-failed".into() };
        }
        let mut spec = Spec::new(&world);
        spec.check_recent_blocks = self.props.contains(&"C19") || std::env::var("VERIF_ALL_PROPS").is_ok();
        let mut last_outcome = String::from("init");
        let all: Vec<&Ev> = self.seed.iter().chain(history.iter()).collect();
        let n = all.len();
        for (i, ev) in all.into_iter().enumerate() {
            let obs = world.apply(ev);
            let mut v = spec.step(&world, &obs);
            if self.probe && v.is_empty() {
                spec.probe(&world, &mut v);
                if !v.is_empty() {
                    spec.lost = true;
                }
            }
            if i + 1 == n {
                last_outcome = outcome_tag(&obs);
                if let (Some(full), true) = (self.forgery, v.is_empty()) {
                    let (fv, nreq) = crate::forgery::forgery_matrix(&world, &spec, full);
                    FORGED_REQUESTS.fetch_add(nreq, std::sync::atomic::Ordering::Relaxed);
                    if !fv.is_empty() {
                        spec.lost = true;
                    }
                    v.extend(fv);
                }
                viols = v;
            } else if !v.is_empty() {
                // An earlier step already failed: this history extends a pruned one (only possible
                // for seeds). Report it as is.
                viols = v;
                break;
            }
        }
        if n == 0 {
            if let Some(full) = self.forgery {
                let (fv, nreq) = crate::forgery::forgery_matrix(&world, &spec, full);
                FORGED_REQUESTS.fetch_add(nreq, std::sync::atomic::Ordering::Relaxed);
                viols.extend(fv);
            }
        }
        Executed { world, spec, viols, last_outcome }
    }

    pub fn enabled(&self, ex: &Executed, history: &[Ev]) -> Vec<Ev> {
        let a = &self.alphabet;
        let w = &ex.world;
        let spec = &ex.spec;
        let mut evs = Vec::new();
        let devs: u32 = history.iter().map(|e| deviation_cost(e, a)).sum();
        let dev_left = a.max_deviations.saturating_sub(devs);
        let all: Vec<&Ev> = self.seed.iter().chain(history.iter()).collect();
        let env = w.env.lock();
        let tower_synced = spec.tip == env.tip;

        for u in a.users.iter() {
            let regs = all.iter().filter(|e| **e == &Ev::Register(*u)).count();
            if regs < a.max_registers_per_user {
                evs.push(Ev::Register(*u));
            }
        }
        let adds = all.iter().filter(|e| matches!(e, Ev::Add { .. })).count();
        if adds < a.max_adds {
            for u in a.users.iter().filter(|u| spec.users.contains_key(u)) {
                for k in a.disps.iter() {
                    for (b, dev) in a.blobs.iter() {
                        if *dev && dev_left == 0 {
                            continue;
                        }
                        for tsd in a.tsds.iter() {
                            evs.push(Ev::Add { user: *u, disp: *k, blob: *b, tsd: *tsd });
                        }
                    }
                }
            }
        }
        let mut sels = Vec::new();
        if a.mine_empty {
            sels.push(MineSel::Empty);
        }
        if a.mine_mempool && !env.mempool.is_empty() {
            sels.push(MineSel::Mempool);
        }
        for k in a.disps.iter() {
            let d = build_tx(TxName::D(*k));
            if env.would_accept(&d) {
                if a.mine_dispute {
                    sels.push(MineSel::Txs(vec![TxName::D(*k)]));
                }
                if a.mine_dispute_and_penalty {
                    sels.push(MineSel::Txs(vec![TxName::D(*k), TxName::P(*k)]));
                }
            }
        }
        let ahead = env.height().saturating_sub(spec.height);
        for s in sels {
            if a.split_poll {
                if ahead < 3 {
                    evs.push(Ev::Mine(s));
                }
            } else {
                evs.push(Ev::MineP(s));
            }
        }
        if a.split_poll && !tower_synced {
            evs.push(Ev::Poll);
        }
        if dev_left > 0 {
            for t in a.externals.iter() {
                if env.would_accept(&build_tx(*t)) {
                    evs.push(Ev::External(*t));
                }
            }
            for t in a.evictions.iter() {
                if env.mempool.contains_key(&crate::sim::txid_of(*t)) {
                    evs.push(Ev::Evict(*t));
                }
            }
            for (d, how) in a.reorgs.iter() {
                if env.height() - (*d as u32) >= BASE_HEIGHT {
                    if a.split_poll {
                        evs.push(Ev::Reorg { depth: *d, how: *how });
                    } else if tower_synced {
                        evs.push(Ev::ReorgP { depth: *d, how: *how });
                    }
                }
            }
            if a.restart {
                evs.push(Ev::Restart);
            }
        }
        if tower_synced {
            for n in a.advances.iter() {
                evs.push(Ev::Advance(*n));
            }
            for n in a.bulk_advances.iter() {
                evs.push(Ev::AdvanceBulk(*n));
            }
        }
        evs
    }
}

fn outcome_tag(obs: &crate::world::StepObs) -> String {
    let api = match &obs.api {
        Some(crate::world::ApiOutcome::Register(r)) => format!("reg:{}", r.as_ref().map(|_| "ok".to_string()).unwrap_or_else(|e| format!("{:?}", e.code))),
        Some(crate::world::ApiOutcome::Add(r)) => format!("add:{}", r.as_ref().map(|_| "ok".to_string()).unwrap_or_else(|e| format!("{:?}", e.code))),
        None => String::new(),
    };
    let rpcs: Vec<String> = obs
        .rpcs()
        .iter()
        .map(|r| format!("{}:{}:{}", &r.method[..4], r.txid.map(|t| crate::sim::tx_label(&t)).unwrap_or_default(), r.verdict))
        .collect();
    format!(
        "{}|{}|{}|rows:{}->{}|trk:{}->{}",
        crate::spec::ev_kind(&obs.ev),
        api,
        rpcs.join(","),
        obs.db_before.appointments.len(),
        obs.db_after.appointments.len(),
        obs.db_before.trackers.len(),
        obs.db_after.trackers.len()
    )
}

impl Model for TowerModel {
    type Ev = Ev;

    fn name(&self) -> String {
        self.label.clone()
    }

    fn run(&self, history: &[Ev]) -> StepResult<Ev> {
        let ex = self.execute(history);
        let violations: Vec<(String, String)> = ex
            .viols
            .iter()
            .filter(|v| std::env::var("VERIF_ALL_PROPS").is_ok() || v.props.iter().any(|p| self.props.contains(p)))
            .map(|v| (v.sig.clone(), v.detail.clone()))
            .collect();
        let prune = !ex.viols.is_empty() || ex.world.dead;
        let enabled = if prune { vec![] } else { self.enabled(&ex, history) };
        let (db, snap, env) = ex.world.fingerprint_parts();
        let fp = fingerprint(&[&db, &snap, &env, &ex.spec.canonical()]);
        StepResult {
            fingerprint: fp,
            enabled,
            violations,
            prune,
            outcome: ex.last_outcome,
        }
    }

    fn describe(&self, history: &[Ev]) -> serde_json::Value {
        json!({
            "engine": "T",
            "cfg": self.cfg,
            "seed": self.seed,
            "events": history,
            "props": self.props,
            "probe": self.probe,
            "readable": self.seed.iter().chain(history.iter()).map(|e| format!("{e:?}")).collect::<Vec<_>>(),
        })
    }
}

/// Re-runs one recorded history without the explorer and prints every step.
pub fn replay(v: &serde_json::Value) -> i32 {
    let h = &v["replay"]["history"];
    let cfg: TowerCfg = serde_json::from_value(h["cfg"].clone()).unwrap();
    let seed: Vec<Ev> = serde_json::from_value(h["seed"].clone()).unwrap();
    let events: Vec<Ev> = serde_json::from_value(h["events"].clone()).unwrap();
    let probe = h["probe"].as_bool().unwrap_or(true);
    let mut world = World::new(cfg);
    world.boot().unwrap();
    let mut spec = Spec::new(&world);
    spec.check_recent_blocks = h["props"].as_array().map_or(false, |a| a.iter().any(|p| p == "C19"));
    let mut bad = 0;
    for ev in seed.iter().chain(events.iter()) {
        let obs = world.apply(ev);
        println!("{ev:?}");
        if let Some(a) = &obs.api {
            println!("    reply: {}", format!("{a:?}").chars().take(300).collect::<String>());
        }
        for t in obs.trace.iter() {
            match t {
                crate::world::Trace::Rpc(r) => println!(
                    "    rpc {} {} -> {} (node height {})",
                    r.method,
                    r.txid.map(|t| crate::sim::tx_label(&t)).unwrap_or_default(),
                    r.verdict,
                    r.node_height
                ),
                crate::world::Trace::Connect(_, h) => println!("    connect {h}"),
                crate::world::Trace::Disconnect(_, h) => println!("    disconnect {h}"),
            }
        }
        if let Some(p) = &obs.panic {
            println!("    PANIC {p}");
        }
        println!("    db: {}", obs.db_after.canonical());
        let mut v = spec.step(&world, &obs);
        if probe && v.is_empty() {
            spec.probe(&world, &mut v);
        }
        println!("    spec: {}", spec.canonical());
        for x in v.iter() {
            println!("    VIOL {:?} {} :: {}", x.props, x.sig, x.detail);
            bad += 1;
        }
        if bad > 0 {
            break;
        }
    }
    (bad > 0) as i32
}
