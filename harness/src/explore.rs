//! Breadth-first explicit-state search by re-execution: a state is the history that reaches it.
//!
//! Every work item (history, next event) is executed from scratch against the real code by the
//! model's `run`; levels are processed synchronously and results are merged in item order, so the
//! counts and the representative history of each state do not depend on thread scheduling.

use std::collections::HashSet;
use std::fmt::Debug;
use std::sync::atomic::{AtomicBool, AtomicUsize, Ordering};
use std::sync::Mutex;
use std::time::{Duration, Instant};

use serde_json::{json, Value};

use crate::report::Run;

pub struct StepResult<Ev> {
    /// Canonical fingerprint of the state reached.
    pub fingerprint: u128,
    /// Events enabled in the state reached (already filtered by the model's own bounds).
    pub enabled: Vec<Ev>,
    /// Violations detected in the *last* step: (signature, detail).
    pub violations: Vec<(String, String)>,
    /// Do not extend this history (e.g. the state is polluted by a reported violation).
    pub prune: bool,
    /// Short tag describing what the last step observably did (for distinct-outcome statistics).
    pub outcome: String,
}

pub trait Model: Sync {
    type Ev: Clone + Debug + Send + Sync;
    fn name(&self) -> String;
    /// Execute `history` from scratch (from this model's initial/seed state).
    fn run(&self, history: &[Self::Ev]) -> StepResult<Self::Ev>;
    fn describe(&self, history: &[Self::Ev]) -> Value {
        json!(history.iter().map(|e| format!("{e:?}")).collect::<Vec<_>>())
    }
}

#[derive(Default, Clone, Debug)]
pub struct Stats {
    pub states: u64,
    pub transitions: u64,
    pub executions: u64,
    pub depth_completed: usize,
    pub depth_target: usize,
    pub exhaustive: bool,
    pub per_level: Vec<(u64, u64)>,
    pub pruned_at_findings: u64,
    pub capped: Option<String>,
}

pub fn fingerprint(parts: &[&str]) -> u128 {
    use std::hash::{Hash, Hasher};
    let mut h1 = std::collections::hash_map::DefaultHasher::new();
    let mut h2 = std::collections::hash_map::DefaultHasher::new();
    0x5eedu64.hash(&mut h2);
    for p in parts {
        p.hash(&mut h1);
        p.hash(&mut h2);
    }
    ((h1.finish() as u128) << 64) | h2.finish() as u128
}

pub fn workers() -> usize {
    std::env::var("VERIF_WORKERS")
        .ok()
        .and_then(|s| s.parse().ok())
        .unwrap_or_else(|| std::thread::available_parallelism().map_or(8, |n| n.get()))
}

/// Runs `f` over `items` on all cores; results are returned in item order.
pub fn par_map<T: Sync, R: Send, F: Fn(usize, &T) -> R + Sync>(
    items: &[T],
    deadline: Option<Instant>,
    f: F,
) -> (Vec<Option<R>>, bool) {
    let next = AtomicUsize::new(0);
    let timed_out = AtomicBool::new(false);
    let results: Vec<Mutex<Option<R>>> = (0..items.len()).map(|_| Mutex::new(None)).collect();
    let n = workers().min(items.len().max(1));
    std::thread::scope(|s| {
        for _ in 0..n {
            s.spawn(|| loop {
                if let Some(d) = deadline {
                    if Instant::now() > d {
                        timed_out.store(true, Ordering::Relaxed);
                        break;
                    }
                }
                let i = next.fetch_add(1, Ordering::Relaxed);
                if i >= items.len() {
                    break;
                }
                let r = f(i, &items[i]);
                *results[i].lock().unwrap() = Some(r);
            });
        }
    });
    (
        results.into_iter().map(|m| m.into_inner().unwrap()).collect(),
        timed_out.load(Ordering::Relaxed),
    )
}

/// BFS to `depth` (number of events after the model's seed state).
pub fn bfs<M: Model>(model: &M, depth: usize, budget: Duration, run: &Run) -> Stats {
    let started = Instant::now();
    let deadline = started + budget;
    let mut stats = Stats {
        depth_target: depth,
        exhaustive: true,
        ..Default::default()
    };
    let mut seen: HashSet<u128> = HashSet::new();

    // Level 0: the seed state itself.
    let root = model.run(&[]);
    stats.executions += 1;
    stats.states += 1;
    seen.insert(root.fingerprint);
    for (sig, detail) in root.violations.iter() {
        run.violation(
            sig,
            detail.clone(),
            json!({"model": model.name(), "history": model.describe(&[])}),
            0,
        );
    }
    let mut frontier: Vec<(Vec<M::Ev>, Vec<M::Ev>)> = if root.prune {
        vec![]
    } else {
        vec![(vec![], root.enabled)]
    };
    run.sample(json!({"model": model.name(), "history": [], "outcome": root.outcome}));

    for level in 1..=depth {
        let mut items: Vec<Vec<M::Ev>> = Vec::new();
        for (h, enabled) in frontier.iter() {
            for e in enabled {
                let mut nh = h.clone();
                nh.push(e.clone());
                items.push(nh);
            }
        }
        if items.is_empty() {
            stats.depth_completed = level - 1;
            stats.depth_completed = depth; // nothing left to explore: complete
            break;
        }
        let (results, timed_out) = par_map(&items, Some(deadline), |_, h| model.run(h));
        let mut next_frontier = Vec::new();
        let mut new_states = 0u64;
        let mut executed = 0u64;
        for (h, r) in items.into_iter().zip(results.into_iter()) {
            let r = match r {
                Some(r) => r,
                None => continue,
            };
            executed += 1;
            run.outcome(&r.outcome);
            for (sig, detail) in r.violations.iter() {
                run.violation(
                    sig,
                    detail.clone(),
                    json!({"model": model.name(), "history": model.describe(&h)}),
                    h.len(),
                );
            }
            if r.prune {
                stats.pruned_at_findings += 1;
                continue;
            }
            if seen.insert(r.fingerprint) {
                new_states += 1;
                if new_states % 997 == 1 {
                    run.sample(json!({"model": model.name(), "history": model.describe(&h), "outcome": r.outcome}));
                }
                next_frontier.push((h, r.enabled));
            }
        }
        stats.transitions += executed;
        stats.executions += executed;
        stats.states += new_states;
        stats.per_level.push((executed, new_states));
        if timed_out {
            stats.exhaustive = false;
            stats.capped = Some(format!(
                "wall budget {:?} hit while exploring level {level}; levels < {level} fully covered",
                budget
            ));
            stats.depth_completed = level - 1;
            return stats;
        }
        stats.depth_completed = level;
        frontier = next_frontier;
    }
    stats
}

pub fn merge_stats(run: &Run, all: &[(String, Stats)]) {
    let mut states = 0;
    let mut transitions = 0;
    let mut executions = 0;
    let mut exhaustive = true;
    let mut pruned = 0;
    let mut detail = Vec::new();
    for (name, s) in all {
        states += s.states;
        transitions += s.transitions;
        executions += s.executions;
        exhaustive &= s.exhaustive;
        pruned += s.pruned_at_findings;
        detail.push(json!({
            "model": name, "states": s.states, "transitions": s.transitions,
            "depth_completed": s.depth_completed, "depth_target": s.depth_target,
            "per_level_(transitions,new_states)": s.per_level, "capped": s.capped,
            "pruned_at_known_or_new_findings": s.pruned_at_findings,
        }));
    }
    run.add("states", states);
    run.add("transitions", transitions);
    run.add("executions", executions);
    run.add("branches_pruned_at_findings", pruned);
    let prev = run
        .coverage
        .lock()
        .unwrap()
        .get("exhaustive")
        .and_then(|v| v.as_bool())
        .unwrap_or(true);
    run.set("exhaustive", json!(prev && exhaustive));
    let mut c = run.coverage.lock().unwrap();
    let arr = c.entry("searches").or_insert_with(|| json!([]));
    if let Some(a) = arr.as_array_mut() {
        a.extend(detail);
    }
}
