//! C05, C13, C14 over engine P: scenarios = sequences of tower reply kinds and client events, run
//! against the real watchtower-client process; oracles read the client's sqlite file and its RPCs.

use std::collections::{BTreeMap, BTreeSet};
use std::sync::Mutex;
use std::time::{Duration, Instant};

use serde_json::{json, Value};
use teos_common::receipts::RegistrationReceipt;
use teos_common::UserId;

use crate::plugin::*;
use crate::report::{Run, Tier};

#[derive(Clone, Debug, serde::Serialize, serde::Deserialize)]
pub enum Step {
    Register(usize),
    /// expect the registration to be refused by the client
    RegisterExpectError(usize),
    Revoke(u8),
    /// the notification is sent, its answer is not waited for (the tower is going to hold the request)
    RevokeNoWait(u8),
    Script(usize, String, Vec<Reply>),
    Default(usize, String, Reply),
    Down(usize),
    Up(usize),
    Retry(usize),
    Abandon(usize),
    /// SIGKILL + start again on the same data directory
    Restart,
    /// start the next client incarnation with VERIF_CRASH_AT=n (abort at the n-th durable write)
    RestartWithCrashAt(u64),
    /// wait until the store and the towers have been quiet for a while (bounded)
    Settle,
    /// wait up to the retry budget for the tower to have nothing pending
    WaitDelivered(usize),
    /// wait until the client shows this status for the tower (bounded by the retry budget)
    WaitStatus(usize, String),
    Release(usize),
    Sleep(u64),
    /// the tower forgets the subscription: it refuses appointments until the client registers again
    LoseSubscription(usize),
    /// the client must show this status for the tower right now
    ExpectStatus(usize, String),
    /// wait at most this many seconds for the tower to have nothing pending
    WaitDeliveredWithin(usize, u64),
    /// wait (bounded) until the tower is holding a request of the client
    WaitInFlight(usize),
    /// from now on the tower answers register requests with the (validly signed) receipt of its n-th registration:
    /// a replay of the current one or an older, shorter one
    RegistrationCounter(usize, u32),
    /// a user command that makes the client talk to the tower (getsubscriptioninfo, getappointment, pingtower);
    /// whatever it answers, it must answer
    Query(usize, String),
}

#[derive(Clone, Debug, serde::Serialize, serde::Deserialize)]
pub struct Scenario {
    pub name: String,
    pub towers: usize,
    pub opts: RetryOpts,
    pub steps: Vec<Step>,
}

#[derive(Debug, Default)]
pub struct Trace {
    pub events: Vec<String>,
    pub viols: Vec<(String, String)>,
    pub outcome: String,
}

struct Ctx {
    towers: Vec<FakeTower>,
    dir: ClientDir,
    client: Option<Client>,
    opts: RetryOpts,
    /// locators notified so far, with the towers registered at that moment
    notified: Vec<(String, Vec<usize>)>,
    registered: BTreeSet<usize>,
    abandoned: BTreeSet<usize>,
    trace: Trace,
    props: Vec<&'static str>,
    crashed: bool,
    /// the running incarnation was armed to abort at a durable write
    armed: bool,
}

impl Ctx {
    fn v(&mut self, prop: &str, sig: String, detail: String) {
        if self.props.contains(&prop) {
            self.trace.viols.push((sig, detail));
        }
    }

    fn tower_hex(&self, t: usize) -> String {
        self.towers[t].id_hex()
    }

    fn list_towers(&mut self) -> Option<Value> {
        let c = self.client.as_mut()?;
        c.call("listtowers", json!([]), Duration::from_secs(3)).and_then(|v| v.get("result").cloned())
    }

    fn status_of(&mut self, t: usize) -> Option<String> {
        let id = self.tower_hex(t);
        self.list_towers().and_then(|l| l.get(&id).and_then(|x| x["status"].as_str().map(|s| s.to_owned())))
    }

    /// The client must be alive and answer a command within 2 s (C14) -- unless it was killed on purpose.
    fn check_alive(&mut self, after: &str) -> bool {
        if self.crashed {
            return false;
        }
        let mut alive = self.client.as_mut().map_or(false, |c| c.alive());
        if alive && self.armed && self.client.as_ref().map_or(false, |c| c.stderr.lock().unwrap().contains("VERIF_CRASH_AT reached")) {
            // on its way down (see above)
            let t0 = Instant::now();
            while self.client.as_mut().map_or(false, |c| c.alive()) && t0.elapsed() < Duration::from_secs(60) {
                std::thread::sleep(Duration::from_millis(50));
            }
            alive = self.client.as_mut().map_or(false, |c| c.alive());
        }
        if !alive && self.armed {
            // the abort we asked for: a crash point
            self.crashed = true;
            self.check_store("crash", false);
            return false;
        }
        if !alive {
            let st = self.client.as_mut().and_then(|c| c.exit_status()).unwrap_or_default();
            let err = self.client.as_ref().map(|c| c.stderr.lock().unwrap().clone()).unwrap_or_default();
            let msg: String = err.lines().filter(|l| l.contains("panicked")).next().unwrap_or("").chars().take(160).collect();
            self.v("C14", format!("client-process-died:after-{after}"), format!("exit {st}; {msg}"));
            self.v("C05", format!("client-process-died:after-{after}"), format!("exit {st}; {msg}"));
            return false;
        }
        let t0 = Instant::now();
        let r = self.list_towers();
        if r.is_none() || t0.elapsed() > Duration::from_secs(2) {
            let err = self.client.as_ref().map(|c| c.stderr.lock().unwrap().clone()).unwrap_or_default();
            let msg: String = err.lines().filter(|l| l.contains("panicked")).next().unwrap_or("").chars().take(200).collect();
            self.v("C14", format!("client-wedged:listtowers-unanswered:after-{after}"), format!("no answer to listtowers within 2 s; stderr: {msg}"));
            self.v("C05", format!("client-wedged:listtowers-unanswered:after-{after}"), format!("no answer to listtowers within 2 s; stderr: {msg}"));
            return false;
        }
        true
    }

    /// C05: every notified commitment is recorded exactly once per live tower.
    fn check_store(&mut self, after: &str, quiescent: bool) {
        let store = match read_store(&self.dir) {
            Some(s) => s,
            None => return,
        };
        let proofs: BTreeSet<String> = store.proofs.iter().cloned().collect();
        // every registration on record carries a receipt that verifies under the id of its tower, and each one
        // extends the one recorded before it
        let user: Option<UserId> = self.towers.iter().find_map(|t| {
            t.state.lock().unwrap().log.iter().find(|s| s.path == "/register").and_then(|s| s.body["user_id"].as_str().and_then(|h| hex::decode(h).ok()).and_then(|b| UserId::from_slice(&b).ok()))
        });
        let mut last: BTreeMap<String, u32> = BTreeMap::new();
        for (tid, slots, start, expiry, sig) in store.registrations.iter() {
            if let (Some(user), Some(t)) = (user, (0..self.towers.len()).find(|t| self.tower_hex(*t) == *tid)) {
                let r = RegistrationReceipt::with_signature(user, *slots, *start, *expiry, sig.clone());
                if !r.verify(&teos_common::TowerId(self.towers[t].keys.pk)) {
                    self.v("C14", "registration-on-record-does-not-verify".into(), format!("tower {t}: slots {slots} start {start} expiry {expiry} signature {:?} (after {after})", &sig[..sig.len().min(20)]));
                }
            }
            if let Some(prev) = last.get(tid) {
                if *expiry <= *prev {
                    self.v("C14", "registration-on-record-does-not-extend-the-previous-one".into(), format!("tower {}: expiry {expiry} recorded after {prev} (after {after})", &tid[..8]));
                }
            }
            last.insert(tid.clone(), *expiry);
        }
        // a tower the user has abandoned (and not registered again) is gone, with everything that was kept for it
        if quiescent {
            for t in self.abandoned.clone() {
                let id = self.tower_hex(t);
                let left: usize = store.receipts.iter().chain(store.pending.iter()).chain(store.invalid.iter()).filter(|(tw, _)| *tw == id).count();
                if store.towers.contains(&id) || left > 0 || proofs.contains(&id) {
                    self.v("C14", format!("abandoned-tower-on-record:after-{after}"), format!("tower {t} was abandoned, yet the store has {} tower record, {left} appointment records and {} proof for it", store.towers.contains(&id) as u8, proofs.contains(&id) as u8));
                    self.v("C05", format!("abandoned-tower-on-record:after-{after}"), format!("tower {t} was abandoned, yet the store has {} tower record, {left} appointment records and {} proof for it", store.towers.contains(&id) as u8, proofs.contains(&id) as u8));
                }
            }
        }
        for (loc, towers) in self.notified.clone() {
            for t in towers {
                if self.abandoned.contains(&t) {
                    continue;
                }
                let id = self.tower_hex(t);
                if proofs.contains(&id) {
                    continue;
                }
                let key = (id.clone(), loc.clone());
                let r = store.receipts.contains(&key) as u8;
                let p = store.pending.contains(&key) as u8;
                let i = store.invalid.contains(&key) as u8;
                let body = store.bodies.contains(&loc);
                if r + p + i == 0 {
                    self.v(
                        "C05",
                        format!("appointment-not-recorded:after-{after}"),
                        format!("revocation {} / tower {t}: neither receipt nor pending nor invalid (store: {} receipts, {} pending, {} invalid)", &loc[..8], store.receipts.len(), store.pending.len(), store.invalid.len()),
                    );
                } else if quiescent && r + p + i > 1 {
                    self.v("C05", format!("appointment-recorded-twice:after-{after}"), format!("revocation {} / tower {t}: receipt={r} pending={p} invalid={i}", &loc[..8]));
                } else if (p + i > 0) && !body {
                    self.v("C05", format!("pending-or-invalid-without-data:after-{after}"), format!("revocation {} / tower {t}: link present, full appointment data missing", &loc[..8]));
                }
            }
        }
    }

    /// How long the client may take to deliver: its retry time plus its auto-retry delay (+4 s). Scenarios that set
    /// a long auto-retry delay do so to keep the auto-retry out of the picture: there the retry time (+8 s) counts.
    fn budget(&self) -> Duration {
        let auto = self.opts.auto_retry_delay as u64;
        Duration::from_secs(self.opts.max_retry_time as u64 + if auto > 30 { 4 } else { auto } + 4)
    }
}

fn step_name(s: &Step) -> String {
    let d = format!("{s:?}");
    d.split(|c| c == '(' || c == ' ').next().unwrap_or("").to_owned()
}

pub fn run_scenario(sc: &Scenario, props: &[&'static str]) -> Trace {
    let mut cx = Ctx {
        towers: (0..sc.towers).map(|i| FakeTower::start(0xe1 + i as u8)).collect(),
        dir: ClientDir::new(),
        client: None,
        opts: sc.opts,
        notified: vec![],
        registered: BTreeSet::new(),
        abandoned: BTreeSet::new(),
        trace: Trace::default(),
        props: props.to_vec(),
        crashed: false,
        armed: false,
    };
    cx.client = Client::start(&cx.dir, sc.opts, None);
    if cx.client.is_none() {
        cx.trace.viols.push(("machinery:client-does-not-start".into(), "handshake failed".into()));
        return cx.trace;
    }
    for step in sc.steps.iter() {
        let name = step_name(step);
        match step {
            Step::Register(t) | Step::RegisterExpectError(t) => {
                let expect_err = matches!(step, Step::RegisterExpectError(_));
                let arg = format!("{}@127.0.0.1:{}", cx.tower_hex(*t), cx.towers[*t].port);
                let before = read_store(&cx.dir);
                let r = cx.client.as_mut().and_then(|c| c.call("registertower", json!([arg]), Duration::from_secs(5)));
                let ok = r.as_ref().map_or(false, |v| v.get("result").is_some());
                cx.trace.events.push(format!("register({t}) -> {}", if ok { "ok" } else { "error" }));
                match (r.is_some(), ok, expect_err) {
                    (false, _, _) => {
                        cx.v("C14", "registertower-unanswered".into(), format!("no reply to registertower within 5 s"));
                    }
                    (true, true, true) => {
                        cx.v("C14", "registration-accepted-on-bad-receipt".into(), format!("tower {t}: {r:?}"));
                    }
                    (true, false, true) => {
                        // nothing may have been recorded
                        let after = read_store(&cx.dir);
                        if before.as_ref().map(|s| &s.towers) != after.as_ref().map(|s| &s.towers) {
                            cx.v("C14", "refused-registration-recorded".into(), format!("towers before {:?} after {:?}", before.map(|s| s.towers), after.map(|s| s.towers)));
                        }
                    }
                    (true, false, false) => {
                        cx.v("C14", "valid-registration-refused".into(), format!("tower {t}: {r:?}"));
                    }
                    (true, true, false) => {
                        cx.registered.insert(*t);
                        cx.abandoned.remove(t);
                    }
                }
                cx.check_alive(&name);
            }
            Step::Revoke(i) => {
                let (payload, loc) = revocation(*i);
                let live: Vec<usize> = cx.registered.iter().cloned().filter(|t| !cx.abandoned.contains(t)).collect();
                let id = cx.client.as_mut().map(|c| c.send("commitment_revocation", payload));
                let answered = match (cx.client.as_mut(), id) {
                    (Some(c), Some(id)) => c.wait_for(id, Duration::from_secs(5)).is_some(),
                    _ => false,
                };
                let alive_now = cx.client.as_mut().map_or(false, |c| c.alive());
                cx.trace.events.push(format!("revoke({i}) -> {}{}", if answered { "answered" } else { "NO ANSWER" }, if alive_now { "" } else { " (process gone)" }));
                // a notification counts once its hook call has been answered (a kill that lands while
                // the call is still being handled is a kill before the notification was taken)
                if answered && !cx.notified.iter().any(|(l, _)| *l == loc) {
                    cx.notified.push((loc, live));
                }
                // an armed client announces the abort on stderr ("VERIF_CRASH_AT reached") before it dies; dying can
                // take a while on a loaded machine (or where core dumps are written): wait for it rather than
                // mistaking a dying process for a wedged one
                if !answered && cx.armed {
                    let announced = cx.client.as_ref().map_or(false, |c| c.stderr.lock().unwrap().contains("VERIF_CRASH_AT reached"));
                    let t0 = Instant::now();
                    while cx.client.as_mut().map_or(false, |c| c.alive()) && t0.elapsed() < Duration::from_secs(if announced { 60 } else { 5 }) {
                        std::thread::sleep(Duration::from_millis(50));
                    }
                }
                let died_as_asked = cx.armed && cx.client.as_mut().map_or(true, |c| !c.alive());
                if !answered && !cx.crashed && !died_as_asked {
                    let held = cx.towers.iter().any(|t| t.state.lock().unwrap().in_flight > 0);
                    if !held {
                        let err = cx.client.as_ref().map(|c| c.stderr.lock().unwrap().clone()).unwrap_or_default();
                        let msg: String = err.lines().filter(|l| l.contains("panicked")).next().unwrap_or("").chars().take(200).collect();
                        cx.v("C14", "hook-never-answered".into(), format!("commitment_revocation {i} got no answer within 5 s; stderr: {msg}"));
                        cx.v("C05", "hook-never-answered".into(), format!("commitment_revocation {i} got no answer within 5 s; stderr: {msg}"));
                    }
                }
                if cx.check_alive(&name) {
                    cx.check_store(&name, false);
                }
            }
            Step::RevokeNoWait(i) => {
                let (payload, _) = revocation(*i);
                if let Some(c) = cx.client.as_mut() {
                    c.send("commitment_revocation", payload);
                }
                cx.trace.events.push(format!("revoke({i}) -> sent"));
            }
            Step::Script(t, path, replies) => cx.towers[*t].script(path, replies),
            Step::Default(t, path, reply) => cx.towers[*t].set_default(path, reply.clone()),
            Step::Down(t) => cx.towers[*t].set_up(false),
            Step::Up(t) => cx.towers[*t].set_up(true),
            Step::Release(t) => cx.towers[*t].release(),
            Step::LoseSubscription(t) => cx.towers[*t].state.lock().unwrap().needs_renewal = true,
            Step::RegistrationCounter(t, n) => {
                let mut st = cx.towers[*t].state.lock().unwrap();
                st.registrations = *n;
                st.stale_registration = true;
            }
            Step::Sleep(ms) => std::thread::sleep(Duration::from_millis(*ms)),
            Step::Retry(t) => {
                let st = cx.status_of(*t).unwrap_or_default();
                let id = cx.tower_hex(*t);
                let r = cx.client.as_mut().and_then(|c| c.call("retrytower", json!([id]), Duration::from_secs(3)));
                let ok = r.as_ref().map_or(false, |v| v.get("result").is_some());
                cx.trace.events.push(format!("retry({t}) in status {st} -> {}", if ok { "accepted" } else { "refused" }));
                let should = st == "unreachable" || st == "subscription_error";
                if r.is_none() {
                    cx.v("C13", "retrytower-unanswered".into(), format!("status {st}"));
                } else if ok != should {
                    // while a retrier is running (temporary unreachable) or the tower is reachable /
                    // misbehaving a manual retry must be refused
                    cx.v("C13", format!("manual-retry-{}:in-status-{st}", if ok { "accepted" } else { "refused" }), format!("{r:?}"));
                }
            }
            Step::Abandon(t) => {
                let id = cx.tower_hex(*t);
                let r = cx.client.as_mut().and_then(|c| c.call("abandontower", json!([id]), Duration::from_secs(3)));
                cx.trace.events.push(format!("abandon({t}) -> {}", r.is_some()));
                cx.abandoned.insert(*t);
                // what it was given so far is gone for good, also if it is registered again later
                for (_, ts) in cx.notified.iter_mut() {
                    ts.retain(|x| x != t);
                }
                cx.check_alive(&name);
            }
            Step::Restart | Step::RestartWithCrashAt(_) => {
                if let Some(c) = cx.client.as_mut() {
                    c.kill();
                }
                // a kill may land between "add the new record" and "delete the old one": at least one
                cx.check_store("kill", false);
                let crash = if let Step::RestartWithCrashAt(n) = step { Some(*n) } else { None };
                cx.client = Client::start(&cx.dir, sc.opts, crash);
                cx.crashed = false;
                cx.armed = crash.is_some();
                if cx.client.is_none() && crash.is_some() {
                    // aborted during start-up (e.g. while storing its key): start it again unarmed
                    cx.client = Client::start(&cx.dir, sc.opts, None);
                    cx.armed = false;
                }
                if cx.client.is_none() {
                    cx.v("C05", "client-does-not-restart".into(), "handshake failed after kill".into());
                    cx.v("C14", "client-does-not-restart".into(), "handshake failed after kill".into());
                    break;
                }
                cx.trace.events.push(format!("restart (armed: {})", cx.armed));
            }
            Step::Settle => {
                // quiet = no tower request in flight and the store unchanged for 600 ms
                let deadline = Instant::now() + cx.budget();
                let mut last = read_store(&cx.dir);
                let mut since = Instant::now();
                while Instant::now() < deadline {
                    std::thread::sleep(Duration::from_millis(60));
                    let now = read_store(&cx.dir);
                    let busy = cx.towers.iter().any(|t| t.state.lock().unwrap().in_flight > 0);
                    if now != last || busy {
                        last = now;
                        since = Instant::now();
                    } else if since.elapsed() > Duration::from_millis(1300) {
                        break;
                    }
                }
                // a client that was armed to abort at a write may be gone by now: that is a crash point
                let gone = cx.client.as_mut().map_or(true, |c| !c.alive());
                if gone {
                    cx.crashed = true;
                    cx.check_store("crash", false);
                } else if cx.check_alive(&name) {
                    cx.check_store(&name, true);
                }
            }
            Step::WaitDelivered(t) => {
                let id = cx.tower_hex(*t);
                let budget = cx.budget();
                let dir = &cx.dir;
                let ok = wait_until(budget, || read_store(dir).map_or(false, |s| !s.pending.iter().any(|(tw, _)| *tw == id)));
                cx.trace.events.push(format!("wait-delivered({t}) -> {ok}"));
                if !ok {
                    let st = cx.status_of(*t).unwrap_or_default();
                    cx.v("C13", format!("pending-not-delivered-after-recovery:status-{st}"), format!("tower {t} is up, yet its pending appointments were not delivered within {:?}; events {:?}", budget, cx.trace.events));
                } else {
                    // nothing pending any more because it was delivered and acknowledged (or refused), not because it vanished
                    let store = read_store(&cx.dir).unwrap_or_default();
                    for (loc, ts) in cx.notified.clone() {
                        let key = (id.clone(), loc.clone());
                        if ts.contains(t) && !store.proofs.contains(&id) && !store.receipts.contains(&key) && !store.invalid.contains(&key) {
                            cx.v("C13", "pending-vanished-instead-of-being-delivered".into(), format!("tower {t}, revocation {}: no longer pending, yet neither acknowledged nor refused; events {:?}", &loc[..8], cx.trace.events));
                        }
                    }
                    // shown reachable again with nothing pending
                    let budget2 = Duration::from_secs(3);
                    let mut st = String::new();
                    let t0 = Instant::now();
                    while t0.elapsed() < budget2 {
                        st = cx.status_of(*t).unwrap_or_default();
                        if st == "reachable" {
                            break;
                        }
                        std::thread::sleep(Duration::from_millis(100));
                    }
                    if st != "reachable" {
                        if st.is_empty() {
                            // listtowers is not answered any more: the client's state is locked for good (a task died holding it)
                            let err = cx.client.as_ref().map(|c| c.stderr.lock().unwrap().clone()).unwrap_or_default();
                            let msg: String = err.lines().filter(|l| l.contains("panicked")).next().unwrap_or("").chars().take(200).collect();
                            cx.v("C13", "client-wedged:listtowers-unanswered:after-delivery".into(), format!("tower {t}: everything delivered, but listtowers is not answered any more; stderr: {msg}"));
                        } else {
                            cx.v("C13", format!("delivered-but-status-{st}"), format!("tower {t}: everything delivered, status still {st}"));
                        }
                    }
                }
            }
            Step::Query(t, cmd) => {
                let id = cx.tower_hex(*t);
                let params = if cmd == "getappointment" { json!([id, revocation(1).1]) } else { json!([id]) };
                let r = cx.client.as_mut().and_then(|c| c.call(cmd, params, Duration::from_secs(5)));
                let ok = r.as_ref().map_or(false, |v| v.get("result").is_some());
                cx.trace.events.push(format!("{cmd}({t}) -> {}", if r.is_none() { "NO ANSWER" } else if ok { "ok" } else { "error" }));
                if r.is_none() {
                    cx.v("C14", format!("{cmd}-unanswered"), "no reply within 5 s".into());
                }
                cx.check_alive(&name);
            }
            Step::WaitInFlight(t) => {
                let tw = &cx.towers[*t];
                let ok = wait_until(Duration::from_secs(8), || tw.state.lock().unwrap().in_flight > 0);
                cx.trace.events.push(format!("wait-in-flight({t}) -> {ok}"));
            }
            Step::ExpectStatus(t, want) => {
                let st = cx.status_of(*t).unwrap_or_default();
                cx.trace.events.push(format!("expect-status({t},{want}) -> {st}"));
                if st != *want {
                    cx.v("C13", format!("status-{st}-instead-of-{want}"), format!("tower {t}; events {:?}", cx.trace.events));
                }
            }
            Step::WaitDeliveredWithin(t, secs) => {
                let id = cx.tower_hex(*t);
                let dir = &cx.dir;
                let ok = wait_until(Duration::from_secs(*secs), || read_store(dir).map_or(false, |s| !s.pending.iter().any(|(tw, _)| *tw == id)));
                cx.trace.events.push(format!("wait-delivered-within({t},{secs}s) -> {ok}"));
                if !ok {
                    let st = cx.status_of(*t).unwrap_or_default();
                    cx.v("C13", format!("pending-not-delivered-within-the-retry-time:status-{st}"), format!("tower {t} came back while the client was still within its retry time, yet its pending appointments were not delivered within {secs} s; events {:?}", cx.trace.events));
                }
            }
            Step::WaitStatus(t, want) => {
                let budget = cx.budget();
                let t0 = Instant::now();
                let mut st = String::new();
                while t0.elapsed() < budget {
                    st = cx.status_of(*t).unwrap_or_default();
                    if st == *want {
                        break;
                    }
                    std::thread::sleep(Duration::from_millis(100));
                }
                cx.trace.events.push(format!("wait-status({t},{want}) -> {st}"));
                if st != *want {
                    cx.v("C13", format!("status-never-{want}:stays-{st}"), format!("tower {t}; events {:?}", cx.trace.events));
                }
            }
        }
    }
    // ---- end-of-scenario checks on what the towers saw
    for (t, tw) in cx.towers.iter().enumerate() {
        let st = tw.state.lock().unwrap();
        let adds: Vec<&Seen> = st.log.iter().filter(|s| s.path == "/add_appointment").collect();
        // flooding: the same locator sent more than 5 times within any one-second window
        let mut by_loc: BTreeMap<String, Vec<Instant>> = BTreeMap::new();
        for a in adds.iter() {
            by_loc.entry(a.body["appointment"]["locator"].as_str().unwrap_or("").to_owned()).or_default().push(a.at);
        }
        for (loc, times) in by_loc.iter() {
            for (i, t0) in times.iter().enumerate() {
                let n = times[i..].iter().filter(|x| x.duration_since(*t0) < Duration::from_secs(1)).count();
                if n > 5 {
                    if props.contains(&"C13") {
                        cx.trace.viols.push(("tower-flooded:same-appointment-more-than-5-times-per-second".into(), format!("tower {t} received locator {} {n} times within one second ({} requests in total)", &loc[..8.min(loc.len())], adds.len())));
                    }
                    break;
                }
            }
        }
        // requests after the tower was proven misbehaving
        if let Some(pos) = st.log.iter().position(|s| matches!(s.answered_with, Reply::WrongKey | Reply::HoldThenWrongKey) && s.path == "/add_appointment") {
            // (requests that came in before that answer was out, and while the client was reading it, do not count)
            // (when that answer was held back other requests may have been on their way while it was read: half a second;
            // otherwise the harness itself waited for the client to have digested it before going on)
            let slack = if st.log[pos].answered_with == Reply::HoldThenWrongKey { 500 } else { 0 };
            let proven = st.log[pos].answered_at.map(|t| t + Duration::from_millis(slack));
            let later = st.log[pos + 1..].iter().filter(|s| s.path == "/add_appointment" && proven.map_or(false, |p| s.at > p)).count();
            if later > 0 && props.contains(&"C14") {
                cx.trace.viols.push(("request-sent-to-misbehaving-tower".into(), format!("tower {t} answered with a signature of another key, yet received {later} more add_appointment requests")));
            }
        }
        if st.max_in_flight_add > 1 && props.contains(&"C13") && sc.name.contains("no-overlap") {
            cx.trace.viols.push(("overlapping-retry-requests".into(), format!("tower {t} had {} add_appointment requests in flight at once", st.max_in_flight_add)));
        }
    }
    let store = read_store(&cx.dir).unwrap_or_default();
    cx.trace.outcome = format!(
        "r{}p{}i{}proofs{}|{}",
        store.receipts.len(),
        store.pending.len(),
        store.invalid.len(),
        store.proofs.len(),
        cx.trace.events.iter().map(|e| e.split("->").last().unwrap_or("").trim().to_owned()).collect::<Vec<_>>().join(",")
    );
    cx.trace
}

// ---------------------------------------------------------------------------------------------

fn add_reply_kinds(tier: Tier) -> Vec<Reply> {
    let mut v = vec![
        Reply::Accept,
        Reply::WrongKey,
        Reply::BadSignature("".into()),
        Reply::BadSignature("not zbase32 !!".into()),
        Reply::BadSignature("d96gtkjumhr9jheiytdf7d5i19mnx5c1tp9cebe76rtwaq8t59qj4jsnqo87qprb8yg5p9bwg6immiekpmqsayz8caufwpwr5cah5fn".into()),
        Reply::BadSignature("\u{00e9}\u{1F600}".into()),
        Reply::SubscriptionError,
        Reply::Reject(36),
        Reply::Reject(200),
        Reply::NonJson,
        Reply::WrongShape,
        Reply::Html5xx,
        Reply::Empty,
        Reply::Oversized,
        Reply::Hangup,
        Reply::Dropped("signature".into()),
        Reply::Dropped("start_block".into()),
        Reply::Dropped("available_slots".into()),
        Reply::Mutated("start_block".into(), json!(-1)),
        Reply::Mutated("start_block".into(), json!(4294967296u64)),
        Reply::Mutated("start_block".into(), json!("7")),
        Reply::Mutated("signature".into(), json!(5)),
        Reply::Mutated("signature".into(), Value::Null),
        Reply::Mutated("available_slots".into(), json!(4294967295u64)),
        Reply::Mutated("locator".into(), json!("zz")),
    ];
    // long unparsable bodies with multi-byte characters at every alignment (a reply that gets logged
    // or truncated must not be cut inside a character)
    for pre in 0..4usize {
        let mut b = "x".repeat(pre).into_bytes();
        b.extend("\u{20ac}".repeat(120).as_bytes());
        v.push(Reply::Raw(b));
    }
    v.push(Reply::Raw({
        let mut b = vec![b'a'; 255];
        b.push(0xff);
        b.extend(vec![b'b'; 60]);
        b
    }));
    v.push(Reply::Raw(vec![0xff; 300]));
    v.push(Reply::Raw("\u{00e9}".repeat(200).into_bytes()));
    if tier == Tier::Thorough {
        let valid = "d96gtkjumhr9jheiytdf7d5i19mnx5c1tp9cebe76rtwaq8t59qj4jsnqo87qprb8yg5p9bwg6immiekpmqsayz8caufwpwr5cah5fn5";
        for l in (1..=110).step_by(3) {
            v.push(Reply::BadSignature(valid.chars().cycle().take(l).collect()));
            v.push(Reply::BadSignature("!".repeat(l)));
        }
    }
    v
}

fn label(r: &Reply) -> String {
    let s = format!("{r:?}");
    s.chars().take(48).collect::<String>().replace('"', "").replace(' ', "")
}

/// The systematic family of engine P: every listed event in every listed state of a tower, next to a second tower
/// that is honest and up all the time (the two share appointment data in the store), followed by the tower coming
/// back honest, the documented user action where one is needed, one more revocation, and a restart. The
/// hand-written scenarios are the situations somebody thought of; this crossing is there for the others. All the
/// general oracles apply at every step (store invariant, liveness, delivery, nothing to a misbehaving tower, flooding).
fn p_family() -> Vec<Scenario> {
    let add = "/add_appointment".to_owned();
    let reg = "/register".to_owned();
    let fast = RetryOpts { max_retry_time: 2, auto_retry_delay: 3, max_retry_interval: 1 };
    let slow = RetryOpts { max_retry_time: 8, auto_retry_delay: 3, max_retry_interval: 1 };
    let start = || vec![Step::Register(0), Step::Register(1), Step::Revoke(1), Step::Settle];
    let states: Vec<(&str, RetryOpts, Vec<Step>)> = vec![
        ("reachable", fast, vec![]),
        ("being-retried", slow, vec![Step::Down(0), Step::Revoke(2), Step::Sleep(1500)]),
        ("unreachable", fast, vec![Step::Down(0), Step::Revoke(2), Step::WaitStatus(0, "unreachable".into())]),
        (
            "subscription-error",
            fast,
            vec![Step::Default(0, reg.clone(), Reply::WrongKey), Step::Default(0, add.clone(), Reply::SubscriptionError), Step::Revoke(2), Step::WaitStatus(0, "subscription_error".into())],
        ),
        ("misbehaving", fast, vec![Step::Script(0, add.clone(), vec![Reply::WrongKey]), Step::Revoke(2), Step::Settle]),
    ];
    let honest = || vec![Step::Default(0, reg.clone(), Reply::Accept), Step::Default(0, add.clone(), Reply::Accept), Step::Up(0)];
    let events: Vec<(&str, Vec<Step>)> = vec![
        ("new-revocation", vec![Step::Revoke(3)]),
        ("first-revocation-again", vec![Step::Revoke(1)]),
        ("second-revocation-again", vec![Step::Revoke(2)]),
        ("abandoned-and-registered-again", {
            let mut v = vec![Step::Abandon(0)];
            v.extend(honest());
            v.push(Step::Register(0));
            v
        }),
        ("renewed-by-the-user", {
            let mut v = honest();
            v.push(Step::Register(0));
            v
        }),
        ("manual-retry", vec![Step::Retry(0)]),
        ("restart", vec![Step::Restart, Step::Settle]),
        ("user-query", vec![Step::Query(0, "getsubscriptioninfo".into())]),
        ("other-tower-abandoned", vec![Step::Abandon(1)]),
    ];
    let mut v = Vec::new();
    for (sname, opts, reach) in states.iter() {
        for (ename, ev) in events.iter() {
            // (a tower that is registered anew after having been abandoned is a new tower: what the old one was proven
            // of does not bind it, and the end-of-scenario oracle cannot tell the two apart)
            if *sname == "misbehaving" && *ename == "abandoned-and-registered-again" {
                continue;
            }
            let mut steps = start();
            steps.extend(reach.iter().cloned());
            steps.extend(ev.iter().cloned());
            steps.extend(honest());
            let fresh = *ename == "abandoned-and-registered-again";
            if *sname == "subscription-error" && !fresh {
                // the documented way out: register again by hand (unless just done), then ask for a retry
                if *ename != "renewed-by-the-user" {
                    steps.push(Step::Register(0));
                }
                steps.push(Step::Settle);
                steps.push(Step::Retry(0));
            }
            if *sname != "misbehaving" {
                steps.push(Step::WaitDelivered(0));
            }
            steps.extend(vec![Step::Revoke(4), Step::Settle, Step::Restart, Step::Settle, Step::Revoke(5), Step::Settle]);
            if *sname != "misbehaving" {
                steps.push(Step::WaitDelivered(0));
            }
            v.push(Scenario { name: format!("family:{sname}:{ename}"), towers: 2, opts: *opts, steps });
        }
    }
    // the same events while the tower is *holding* a request of the client - the notification's own delivery, or the
    // retrier's - which it then answers properly or with another key's signature
    for (hname, hold) in [("acknowledged-late", Reply::Hold), ("answered-late-with-another-key", Reply::HoldThenWrongKey)] {
        let held: Vec<(&str, Vec<Step>)> = vec![
            ("notification-in-flight", vec![Step::Script(0, add.clone(), vec![hold.clone()]), Step::RevokeNoWait(2), Step::WaitInFlight(0)]),
            ("retry-in-flight", vec![Step::Down(0), Step::Revoke(2), Step::Script(0, add.clone(), vec![hold.clone()]), Step::Up(0), Step::WaitInFlight(0)]),
        ];
        for (sname, reach) in held.iter() {
            for (ename, ev) in events.iter() {
                // (a client that is killed while the request is held never sees the answer: nothing is proven to it)
                if *ename == "renewed-by-the-user" || (hold == Reply::HoldThenWrongKey && (*ename == "abandoned-and-registered-again" || *ename == "restart")) {
                    continue;
                }
                let mut steps = start();
                steps.extend(reach.iter().cloned());
                steps.extend(ev.iter().cloned());
                steps.push(Step::Release(0));
                steps.push(Step::Settle);
                if hold == Reply::Hold {
                    // (notified once more, this time waiting for the answer: from here on the commitment counts as notified)
                    steps.extend(vec![Step::Revoke(2), Step::Settle, Step::WaitDelivered(0)]);
                }
                steps.extend(vec![Step::Revoke(4), Step::Settle, Step::Restart, Step::Settle, Step::Revoke(5), Step::Settle]);
                if hold == Reply::Hold {
                    steps.push(Step::WaitDelivered(0));
                }
                v.push(Scenario { name: format!("family:{sname}:{hname}:{ename}"), towers: 2, opts: slow, steps });
            }
        }
    }
    v
}

fn c14_scenarios(tier: Tier) -> Vec<Scenario> {
    let mut v = Vec::new();
    let add = "/add_appointment".to_owned();
    let reg = "/register".to_owned();
    for k in add_reply_kinds(tier) {
        // notification path
        v.push(Scenario {
            name: format!("notify:{}", label(&k)),
            towers: 1,
            opts: RetryOpts::default(),
            steps: vec![Step::Register(0), Step::Script(0, add.clone(), vec![k.clone()]), Step::Revoke(1), Step::Revoke(2), Step::Settle],
        });
        // retry path
        v.push(Scenario {
            name: format!("retry:{}", label(&k)),
            towers: 1,
            opts: RetryOpts::default(),
            steps: vec![Step::Register(0), Step::Down(0), Step::Revoke(1), Step::Script(0, add.clone(), vec![k.clone()]), Step::Up(0), Step::Settle, Step::Revoke(2), Step::Settle],
        });
    }
    // the same replies from non-initial states: to a repeated notification of a commitment the tower has
    // already acknowledged, resp. already rejected
    for k in add_reply_kinds(tier) {
        v.push(Scenario {
            name: format!("repeat-after-accept:{}", label(&k)),
            towers: 1,
            opts: RetryOpts::default(),
            steps: vec![Step::Register(0), Step::Revoke(1), Step::Settle, Step::Script(0, add.clone(), vec![k.clone()]), Step::Revoke(1), Step::Settle, Step::Revoke(2), Step::Settle],
        });
        v.push(Scenario {
            name: format!("repeat-after-rejection:{}", label(&k)),
            towers: 1,
            opts: RetryOpts::default(),
            steps: vec![Step::Register(0), Step::Script(0, add.clone(), vec![Reply::Reject(33), k.clone()]), Step::Revoke(1), Step::Settle, Step::Revoke(1), Step::Settle, Step::Revoke(2), Step::Settle],
        });
    }
    // the proof arrives while another appointment is already queued for retry (the tower holds the first request, drops
    // the connection of the second, then answers the first with another key's signature): the retrier must not send
    v.push(Scenario {
        name: "misbehaviour-proven-while-a-retry-is-queued".into(),
        towers: 1,
        opts: RetryOpts::default(),
        steps: vec![
            Step::Register(0),
            Step::Script(0, add.clone(), vec![Reply::HoldThenWrongKey, Reply::Hangup]),
            Step::RevokeNoWait(1),
            Step::WaitInFlight(0),
            Step::Revoke(2),
            Step::Release(0),
            Step::Settle,
            Step::Sleep(2500),
            Step::Settle,
            Step::Restart,
            Step::Settle,
            Step::Revoke(3),
            Step::Settle,
        ],
    });
    // the proof arrives (answer to a notification's own request, held by the tower) while the retrier is in the middle of a
    // batch: what is left of the batch is not sent. (The request the retrier has in flight at that moment and the one right
    // after it fall into the oracle's allowance for held answers; the tower is slow to answer that one, the fourth comes late.)
    v.push(Scenario {
        name: "misbehaviour-proven-while-the-retrier-is-in-the-middle-of-a-batch".into(),
        towers: 1,
        opts: RetryOpts { max_retry_time: 8, auto_retry_delay: 30, max_retry_interval: 1 },
        steps: vec![
            Step::Register(0),
            Step::Script(0, add.clone(), vec![Reply::HoldThenWrongKey, Reply::Hangup, Reply::Hold, Reply::Slow(900), Reply::Slow(900)]),
            Step::RevokeNoWait(1),
            Step::WaitInFlight(0),
            Step::Revoke(2),
            Step::Revoke(3),
            Step::Revoke(4),
            // (the retry manager starts the retrier within a second; its first request is held as well)
            Step::Sleep(2500),
            Step::Release(0),
            Step::Sleep(3000),
            Step::Settle,
        ],
    });
    // two notifications being handled at once: the first waits for a slow tower X; the second gets another key's signature
    // from tower Y, which is flagged; the first then goes on to Y - with the status it read before Y was flagged? (towers
    // are visited in an order the harness does not control: both assignments of the roles, one of them is the telling one)
    for (x, y) in [(0usize, 1usize), (1, 0)] {
        v.push(Scenario {
            name: format!("two-notifications-at-once:tower-{y}-flagged-while-the-first-waits-for-tower-{x}"),
            towers: 2,
            opts: RetryOpts::default(),
            steps: vec![
                Step::Register(0),
                Step::Register(1),
                Step::Script(x, add.clone(), vec![Reply::Hold]),
                Step::RevokeNoWait(1),
                Step::WaitInFlight(x),
                Step::Default(y, add.clone(), Reply::WrongKey),
                Step::Revoke(2),
                Step::Settle,
                Step::Default(y, add.clone(), Reply::Accept),
                Step::Release(x),
                Step::Settle,
                Step::Revoke(3),
                Step::Settle,
            ],
        });
    }
    // the user abandons a tower while the retrier is renewing the subscription with it (the tower holds the registration
    // request): the registration that then arrives must not bring the tower back
    v.push(Scenario {
        name: "abandoned-while-the-retrier-renews-the-subscription".into(),
        towers: 2,
        opts: RetryOpts::default(),
        steps: vec![
            Step::Register(0),
            Step::Register(1),
            Step::LoseSubscription(0),
            Step::Script(0, "/register".into(), vec![Reply::Hold]),
            Step::Revoke(1),
            Step::WaitInFlight(0),
            Step::Abandon(0),
            Step::Release(0),
            Step::Settle,
            Step::Sleep(1500),
            Step::Settle,
            Step::Revoke(2),
            Step::Settle,
            Step::Restart,
            Step::Settle,
        ],
    });
    // a tower proven misbehaving stays so, also across a (valid) renewal of the subscription
    v.push(Scenario {
        name: "misbehaving-then-renewal".into(),
        towers: 1,
        opts: RetryOpts::default(),
        steps: vec![Step::Register(0), Step::Script(0, add.clone(), vec![Reply::WrongKey]), Step::Revoke(1), Step::Register(0), Step::Revoke(2), Step::Settle, Step::Restart, Step::Revoke(3), Step::Settle],
    });
    // proven misbehaving, then a user command finds the tower down (resp. gets garbage): it stays misbehaving and
    // nothing more is sent once it is back
    for cmd in ["getsubscriptioninfo", "getappointment", "pingtower", "registertower"] {
        let q = if cmd == "registertower" { Step::RegisterExpectError(0) } else { Step::Query(0, cmd.into()) };
        v.push(Scenario {
            name: format!("misbehaving-then-{cmd}-while-down"),
            towers: 1,
            opts: RetryOpts::default(),
            steps: vec![Step::Register(0), Step::Script(0, add.clone(), vec![Reply::WrongKey]), Step::Revoke(1), Step::Settle, Step::Down(0), q, Step::Up(0), Step::Revoke(2), Step::Settle, Step::Restart, Step::Revoke(3), Step::Settle],
        });
    }
    // proven misbehaving on the retry path (the appointment is still pending next to the proof), then a restart
    v.push(Scenario {
        name: "misbehaving-on-retry-path-then-restart".into(),
        towers: 1,
        opts: RetryOpts::default(),
        steps: vec![Step::Register(0), Step::Down(0), Step::Revoke(1), Step::Script(0, add.clone(), vec![Reply::WrongKey]), Step::Up(0), Step::Settle, Step::Restart, Step::Settle, Step::Revoke(2), Step::Settle, Step::Restart, Step::Settle],
    });
    // registration replies
    for k in [
        Reply::WrongKey,
        Reply::BadSignature("".into()),
        Reply::BadSignature("!!".into()),
        Reply::NonJson,
        Reply::WrongShape,
        Reply::Html5xx,
        Reply::Empty,
        Reply::Oversized,
        Reply::Hangup,
        Reply::Reject(65),
        Reply::Dropped("subscription_signature".into()),
        Reply::Dropped("available_slots".into()),
        Reply::Mutated("available_slots".into(), json!(-1)),
        Reply::Mutated("subscription_expiry".into(), json!(4294967296u64)),
        Reply::Mutated("subscription_expiry".into(), json!(0)),
        Reply::Mutated("available_slots".into(), json!(0)),
    ] {
        v.push(Scenario {
            name: format!("register:{}", label(&k)),
            towers: 1,
            opts: RetryOpts::default(),
            steps: vec![Step::Script(0, reg.clone(), vec![k.clone()]), Step::RegisterExpectError(0), Step::Register(0), Step::Revoke(1), Step::Settle],
        });
        // as a renewal: the known subscription must stay as it was
        v.push(Scenario {
            name: format!("renewal:{}", label(&k)),
            towers: 1,
            opts: RetryOpts::default(),
            steps: vec![Step::Register(0), Step::Script(0, reg.clone(), vec![k.clone()]), Step::RegisterExpectError(0), Step::Revoke(1), Step::Settle],
        });
    }
    // registration replies on the retry path: the tower has lost the subscription, the retrier registers again by itself
    // and gets each kind of reply first (then a good one): nothing but a verifying, extending receipt is recorded
    for k in [
        Reply::WrongKey,
        Reply::BadSignature("".into()),
        Reply::BadSignature("d96gtkjumhr9".into()),
        Reply::NonJson,
        Reply::WrongShape,
        Reply::Empty,
        Reply::Hangup,
        Reply::Reject(65),
        Reply::Dropped("subscription_signature".into()),
        Reply::Mutated("available_slots".into(), json!(4294967295u64)),
        Reply::Mutated("subscription_expiry".into(), json!(4294967295u64)),
        Reply::Mutated("subscription_expiry".into(), json!(0)),
    ] {
        v.push(Scenario {
            name: format!("retry-path-registration:{}", label(&k)),
            towers: 1,
            opts: RetryOpts::default(),
            steps: vec![Step::Register(0), Step::LoseSubscription(0), Step::Script(0, reg.clone(), vec![k.clone()]), Step::Revoke(1), Step::Settle, Step::Revoke(2), Step::Settle, Step::Restart, Step::Settle],
        });
    }
    // validly signed receipts that do not extend what the client knows: a replay of the current one, an older one;
    // as an answer to the user's command and to the retrier's registration; from the initial state and after a restart
    // with a second tower whose subscription ends when this one's first one did
    for (name, n) in [("replayed", 2u32), ("older", 1)] {
        for t in [0usize, 1] {
            for restart in [false, true] {
                let mut steps = vec![Step::Register(0), Step::Register(1), Step::Register(t), Step::Revoke(1), Step::Settle];
                if restart {
                    steps.push(Step::Restart);
                }
                steps.extend(vec![Step::RegistrationCounter(t, n), Step::RegisterExpectError(t), Step::Revoke(2), Step::Settle, Step::LoseSubscription(t), Step::Revoke(3), Step::Settle]);
                v.push(Scenario { name: format!("two-towers:renewed-tower-{t}:{name}-receipt:restart={restart}"), towers: 2, opts: RetryOpts::default(), steps });
            }
        }
    }
    v
}

fn c05_scenarios(tier: Tier) -> Vec<Scenario> {
    let add = "/add_appointment".to_owned();
    let kinds = vec![
        Reply::Accept,
        Reply::SubscriptionError,
        Reply::Reject(36),
        Reply::NonJson,
        Reply::WrongShape,
        Reply::Html5xx,
        Reply::Empty,
        Reply::Hangup,
        // malformed signatures (empty; short; not zbase32) and a well-formed one of another key
        Reply::BadSignature("".into()),
        Reply::BadSignature("d96gtkjumhr9".into()),
        Reply::WrongKey,
    ];
    let mut v = Vec::new();
    let maxlen = if tier == Tier::Quick { 2 } else { 3 };
    // every sequence of reply kinds (notification path), tower up
    let mut seqs: Vec<Vec<Reply>> = vec![vec![]];
    for _ in 0..maxlen {
        let mut next = Vec::new();
        for s in seqs.iter() {
            for k in kinds.iter() {
                let mut s2 = s.clone();
                s2.push(k.clone());
                next.push(s2);
            }
        }
        v.extend(next.iter().map(|s| {
            let mut steps = vec![Step::Register(0), Step::Script(0, add.clone(), s.clone())];
            for i in 0..s.len() {
                steps.push(Step::Revoke(1 + i as u8));
            }
            steps.push(Step::Settle);
            steps.push(Step::Restart);
            steps.push(Step::Settle);
            Scenario { name: format!("notify-seq:{}", s.iter().map(label).collect::<Vec<_>>().join("+")), towers: 1, opts: RetryOpts::default(), steps }
        }));
        seqs = next;
    }
    // retry path: tower down, revocations, tower up answering with each sequence
    for s in seqs.iter().filter(|s| s.len() <= 2) {
        v.push(Scenario {
            name: format!("retry-seq:{}", s.iter().map(label).collect::<Vec<_>>().join("+")),
            towers: 1,
            opts: RetryOpts::default(),
            steps: vec![Step::Register(0), Step::Down(0), Step::Revoke(1), Step::Revoke(2), Step::Script(0, add.clone(), s.clone()), Step::Up(0), Step::Settle, Step::Restart, Step::Settle],
        });
    }
    // duplicate notifications in every client state
    for (name, pre) in [
        ("accepted", vec![]),
        ("pending", vec![Step::Down(0)]),
        ("invalid", vec![Step::Default(0, add.clone(), Reply::Reject(36))]),
        ("subscription-error", vec![Step::Default(0, add.clone(), Reply::SubscriptionError)]),
    ] {
        let mut steps = vec![Step::Register(0)];
        steps.extend(pre);
        steps.extend(vec![Step::Revoke(1), Step::Revoke(1), Step::Settle, Step::Revoke(2), Step::Settle]);
        v.push(Scenario { name: format!("duplicate-notification:{name}"), towers: 1, opts: RetryOpts::default(), steps });
    }
    // a commitment the tower has acknowledged is notified again when the tower is down / refuses it / has lost the
    // subscription: it stays accepted, and nothing else (looked at while the tower is still in that condition)
    for (name, cond) in [
        ("tower-down", vec![Step::Down(0)]),
        ("tower-rejects", vec![Step::Default(0, add.clone(), Reply::Reject(36))]),
        ("subscription-lost", vec![Step::Default(0, add.clone(), Reply::SubscriptionError)]),
    ] {
        let mut steps = vec![Step::Register(0), Step::Revoke(1), Step::Settle];
        steps.extend(cond);
        steps.extend(vec![Step::Revoke(1), Step::Settle, Step::Restart, Step::Settle]);
        v.push(Scenario { name: format!("duplicate-notification:acknowledged-earlier:{name}"), towers: 1, opts: RetryOpts::default(), steps });
    }
    // ... and a commitment the tower has *rejected*, notified again when the tower is down / answers garbage / has lost
    // the subscription / would accept it now: one record, not two
    for (name, cond) in [
        ("tower-down", vec![Step::Down(0)]),
        ("tower-answers-garbage", vec![Step::Default(0, add.clone(), Reply::NonJson)]),
        ("subscription-lost", vec![Step::Default(0, add.clone(), Reply::SubscriptionError)]),
        ("tower-accepts-now", vec![Step::Default(0, add.clone(), Reply::Accept)]),
    ] {
        let mut steps = vec![Step::Register(0), Step::Default(0, add.clone(), Reply::Reject(36)), Step::Revoke(1), Step::Settle];
        steps.extend(cond);
        steps.extend(vec![Step::Revoke(1), Step::Settle, Step::Default(0, add.clone(), Reply::Accept), Step::Up(0), Step::Sleep(3000), Step::Settle, Step::Restart, Step::Settle]);
        v.push(Scenario { name: format!("duplicate-notification:rejected-earlier:{name}"), towers: 1, opts: RetryOpts::default(), steps });
    }
    // two towers share the data of a commitment: one has acknowledged it, the other still has it pending; the commitment
    // is notified again while the first one is down, which then comes back and acknowledges again: the other's record stays
    v.push(Scenario {
        name: "two-towers:duplicate-while-the-acknowledging-tower-is-down:other-still-pending".into(),
        towers: 2,
        opts: RetryOpts::default(),
        steps: vec![
            Step::Register(0),
            Step::Register(1),
            Step::Down(1),
            Step::Revoke(1),
            Step::Settle,
            Step::Down(0),
            Step::Revoke(1),
            Step::Up(0),
            Step::WaitStatus(0, "reachable".into()),
            Step::Settle,
            Step::Restart,
            Step::Settle,
            Step::Up(1),
            Step::WaitDelivered(1),
            Step::Settle,
        ],
    });
    // the same with the other one holding it as invalid
    v.push(Scenario {
        name: "two-towers:duplicate-while-the-acknowledging-tower-is-down:other-rejected-it".into(),
        towers: 2,
        opts: RetryOpts::default(),
        steps: vec![
            Step::Register(0),
            Step::Register(1),
            Step::Default(1, add.clone(), Reply::Reject(36)),
            Step::Revoke(1),
            Step::Settle,
            Step::Down(0),
            Step::Revoke(1),
            Step::Up(0),
            Step::WaitStatus(0, "reachable".into()),
            Step::Settle,
            Step::Restart,
            Step::Settle,
        ],
    });
    // two towers, one of them failing in each way; a revocation while the retrier is running
    for k in kinds.iter() {
        v.push(Scenario {
            name: format!("two-towers:{}", label(k)),
            towers: 2,
            opts: RetryOpts::default(),
            steps: vec![Step::Register(0), Step::Register(1), Step::Script(1, add.clone(), vec![k.clone()]), Step::Revoke(1), Step::Down(1), Step::Revoke(2), Step::Up(1), Step::Revoke(3), Step::Settle, Step::Restart, Step::Settle],
        });
    }
    // valid acknowledgements that report another balance than the client expects (more slots: the tower handed some
    // back or answers arrive out of order; none left), on both paths
    for (name, slots) in [("more-slots", json!(1_000_000u32)), ("no-slots-left", json!(0))] {
        let k = Reply::Mutated("available_slots".into(), slots);
        v.push(Scenario {
            name: format!("acknowledged-with-{name}:notify"),
            towers: 1,
            opts: RetryOpts::default(),
            steps: vec![Step::Register(0), Step::Script(0, add.clone(), vec![k.clone()]), Step::Revoke(1), Step::Settle, Step::Revoke(2), Step::Settle, Step::Restart, Step::Settle],
        });
        v.push(Scenario {
            name: format!("acknowledged-with-{name}:retry"),
            towers: 1,
            opts: RetryOpts::default(),
            steps: vec![Step::Register(0), Step::Down(0), Step::Revoke(1), Step::Settle, Step::Script(0, add.clone(), vec![k.clone()]), Step::Up(0), Step::WaitDelivered(0), Step::Settle, Step::Restart, Step::Settle],
        });
    }
    // the same commitment notified again while the retrier has it in flight (the tower holds the request)
    for (name, gap) in [("released-at-once", 0u64), ("released-after-the-manager-tick", 1500)] {
        v.push(Scenario {
            name: format!("duplicate-notification:while-retry-in-flight:{name}"),
            towers: 1,
            opts: RetryOpts::default(),
            steps: vec![
                Step::Register(0),
                Step::Down(0),
                Step::Revoke(1),
                Step::Script(0, add.clone(), vec![Reply::Hold]),
                Step::Up(0),
                Step::WaitInFlight(0),
                Step::Revoke(1),
                Step::Sleep(gap),
                Step::Release(0),
                Step::Settle,
                Step::Revoke(2),
                Step::Settle,
                Step::Restart,
                Step::Settle,
            ],
        });
    }
    v.push(Scenario {
        name: "duplicate-notification:while-retry-in-flight:shared-with-a-tower-that-is-down".into(),
        towers: 2,
        opts: RetryOpts::default(),
        steps: vec![
            Step::Register(0),
            Step::Register(1),
            Step::Down(0),
            Step::Down(1),
            Step::Revoke(1),
            Step::Script(0, add.clone(), vec![Reply::Hold]),
            Step::Up(0),
            Step::WaitInFlight(0),
            Step::Revoke(1),
            Step::Release(0),
            Step::Settle,
            Step::Restart,
            Step::Settle,
        ],
    });
    // one tower proven misbehaving on a commitment the other one acknowledged; restart; the honest one keeps being used
    v.push(Scenario {
        name: "two-towers:one-misbehaves-on-a-commitment-the-other-acknowledged:restart".into(),
        towers: 2,
        opts: RetryOpts::default(),
        steps: vec![Step::Register(0), Step::Register(1), Step::Script(1, add.clone(), vec![Reply::WrongKey]), Step::Revoke(1), Step::Settle, Step::Restart, Step::Settle, Step::Revoke(2), Step::Settle],
    });
    // a tower is abandoned while the retrier has a request for a shared commitment in flight with it
    v.push(Scenario {
        name: "shared-pending:tower-abandoned-while-its-delivery-is-in-flight".into(),
        towers: 2,
        opts: RetryOpts::default(),
        steps: vec![
            Step::Register(0),
            Step::Register(1),
            Step::Down(0),
            Step::Down(1),
            Step::Revoke(1),
            Step::Revoke(2),
            Step::Script(0, add.clone(), vec![Reply::Hold]),
            Step::Up(0),
            Step::WaitInFlight(0),
            Step::Abandon(0),
            Step::Release(0),
            Step::Settle,
            Step::Revoke(3),
            Step::Settle,
            Step::Restart,
            Step::Settle,
        ],
    });
    // two towers holding the same commitments as pending / invalid (appointment bodies are shared between
    // towers in the store): what one tower does must not cost the other its record
    v.push(Scenario {
        name: "shared-pending:one-tower-abandoned".into(),
        towers: 2,
        opts: RetryOpts::default(),
        steps: vec![Step::Register(0), Step::Register(1), Step::Down(0), Step::Down(1), Step::Revoke(1), Step::Revoke(2), Step::Settle, Step::Abandon(0), Step::Settle, Step::Restart, Step::Settle],
    });
    v.push(Scenario {
        name: "shared-pending-and-invalid:one-tower-abandoned".into(),
        towers: 2,
        opts: RetryOpts::default(),
        steps: vec![Step::Register(0), Step::Register(1), Step::Down(0), Step::Default(1, add.clone(), Reply::Reject(36)), Step::Revoke(1), Step::Revoke(2), Step::Settle, Step::Abandon(0), Step::Settle, Step::Restart, Step::Settle],
    });
    v.push(Scenario {
        name: "shared-pending:one-tower-recovers".into(),
        towers: 2,
        opts: RetryOpts::default(),
        steps: vec![Step::Register(0), Step::Register(1), Step::Down(0), Step::Down(1), Step::Revoke(1), Step::Revoke(2), Step::Settle, Step::Up(0), Step::WaitDelivered(0), Step::Settle, Step::Restart, Step::Settle],
    });
    v.push(Scenario {
        name: "shared-pending-and-invalid:pending-tower-recovers".into(),
        towers: 2,
        opts: RetryOpts::default(),
        steps: vec![Step::Register(0), Step::Register(1), Step::Down(0), Step::Default(1, add.clone(), Reply::Reject(36)), Step::Revoke(1), Step::Settle, Step::Up(0), Step::WaitDelivered(0), Step::Settle, Step::Restart, Step::Settle],
    });
    v.push(Scenario {
        name: "revocation-while-retrier-runs".into(),
        towers: 1,
        opts: RetryOpts::default(),
        steps: vec![Step::Register(0), Step::Down(0), Step::Revoke(1), Step::Sleep(1200), Step::Revoke(2), Step::Up(0), Step::Revoke(3), Step::Settle],
    });
    v.push(Scenario {
        name: "revocation-while-unreachable".into(),
        towers: 1,
        opts: RetryOpts { max_retry_time: 1, auto_retry_delay: 60, max_retry_interval: 1 },
        steps: vec![Step::Register(0), Step::Down(0), Step::Revoke(1), Step::WaitStatus(0, "unreachable".into()), Step::Revoke(2), Step::Settle, Step::Restart, Step::Settle],
    });
    // kill at every durable write of the interesting flows
    let crash_points: u64 = if tier == Tier::Quick { 8 } else { 14 };
    for n in 0..crash_points {
        v.push(Scenario {
            name: format!("crash-at-write-{n}:retry-accept"),
            towers: 1,
            opts: RetryOpts::default(),
            steps: vec![Step::Register(0), Step::Down(0), Step::Revoke(1), Step::Revoke(2), Step::Settle, Step::RestartWithCrashAt(n), Step::Up(0), Step::Settle, Step::Restart, Step::Settle],
        });
        v.push(Scenario {
            name: format!("crash-at-write-{n}:retry-reject"),
            towers: 1,
            opts: RetryOpts::default(),
            steps: vec![Step::Register(0), Step::Down(0), Step::Revoke(1), Step::Settle, Step::Default(0, add.clone(), Reply::Reject(36)), Step::RestartWithCrashAt(n), Step::Up(0), Step::Settle, Step::Restart, Step::Settle],
        });
        v.push(Scenario {
            name: format!("crash-at-write-{n}:notify"),
            towers: 2,
            opts: RetryOpts::default(),
            steps: vec![Step::Register(0), Step::Register(1), Step::Down(1), Step::RestartWithCrashAt(n), Step::Revoke(1), Step::Revoke(2), Step::Settle, Step::Restart, Step::Up(1), Step::Settle],
        });
    }
    v
}

fn c13_scenarios(_tier: Tier) -> Vec<Scenario> {
    let add = "/add_appointment".to_owned();
    let fast = RetryOpts { max_retry_time: 2, auto_retry_delay: 3, max_retry_interval: 1 };
    let mut v = vec![
        // the tower is abandoned while it is being retried, registered again later, and has another outage: the new
        // data is delivered once it is back (no left-over of the first retry loop stands in the way)
        Scenario {
            name: "abandoned-while-retried:registered-again:second-outage".into(),
            towers: 1,
            opts: RetryOpts { max_retry_time: 6, auto_retry_delay: 3, max_retry_interval: 1 },
            steps: vec![
                Step::Register(0),
                Step::Down(0),
                Step::Revoke(1),
                // (the retry manager picks new work up once a second: by now the retry loop is running, and will be for 4 s more)
                Step::Sleep(1800),
                Step::Abandon(0),
                Step::Sleep(2500),
                Step::Up(0),
                Step::Register(0),
                Step::Down(0),
                Step::Revoke(2),
                Step::Sleep(300),
                Step::Up(0),
                Step::WaitDelivered(0),
            ],
        },
        // the same with the first retry loop already idle (it gave up)
        Scenario {
            name: "abandoned-while-idle:registered-again:second-outage".into(),
            towers: 1,
            opts: fast,
            steps: vec![
                Step::Register(0),
                Step::Down(0),
                Step::Revoke(1),
                Step::WaitStatus(0, "unreachable".into()),
                Step::Abandon(0),
                Step::Sleep(500),
                Step::Up(0),
                Step::Register(0),
                Step::Down(0),
                Step::Revoke(2),
                Step::Sleep(300),
                Step::Up(0),
                Step::WaitDelivered(0),
            ],
        },
        // another tower is abandoned while this one is in an outage (running, resp. idle retrier): its pending data is
        // still delivered when it is back
        Scenario {
            name: "other-tower-abandoned-during-outage:retrier-running".into(),
            towers: 2,
            opts: RetryOpts { max_retry_time: 6, auto_retry_delay: 3, max_retry_interval: 1 },
            steps: vec![Step::Register(0), Step::Register(1), Step::Down(0), Step::Revoke(1), Step::Sleep(300), Step::Abandon(1), Step::Up(0), Step::WaitDelivered(0)],
        },
        Scenario {
            name: "other-tower-abandoned-during-outage:retrier-idle".into(),
            towers: 2,
            opts: fast,
            steps: vec![Step::Register(0), Step::Register(1), Step::Down(0), Step::Revoke(1), Step::WaitStatus(0, "unreachable".into()), Step::Abandon(1), Step::Up(0), Step::WaitDelivered(0)],
        },
        Scenario {
            name: "recovers-while-retrier-running:no-overlap".into(),
            towers: 1,
            opts: fast,
            steps: vec![Step::Register(0), Step::Down(0), Step::Revoke(1), Step::Revoke(2), Step::Sleep(700), Step::Retry(0), Step::Up(0), Step::WaitDelivered(0)],
        },
        Scenario {
            name: "gives-up-then-auto-retry:no-overlap".into(),
            towers: 1,
            opts: fast,
            steps: vec![Step::Register(0), Step::Down(0), Step::Revoke(1), Step::WaitStatus(0, "unreachable".into()), Step::Revoke(2), Step::Up(0), Step::WaitDelivered(0)],
        },
        Scenario {
            name: "gives-up-then-manual-retry:no-overlap".into(),
            towers: 1,
            opts: RetryOpts { max_retry_time: 1, auto_retry_delay: 120, max_retry_interval: 1 },
            steps: vec![Step::Register(0), Step::Down(0), Step::Revoke(1), Step::WaitStatus(0, "unreachable".into()), Step::Up(0), Step::Retry(0), Step::WaitDelivered(0), Step::Retry(0)],
        },
        Scenario {
            name: "unreachable-keeps-data".into(),
            towers: 1,
            opts: RetryOpts { max_retry_time: 1, auto_retry_delay: 120, max_retry_interval: 1 },
            steps: vec![Step::Register(0), Step::Down(0), Step::Revoke(1), Step::Revoke(2), Step::WaitStatus(0, "unreachable".into()), Step::Settle, Step::Restart, Step::Settle],
        },
        Scenario {
            name: "subscription-error-then-renewal:no-overlap".into(),
            towers: 1,
            opts: fast,
            steps: vec![Step::Register(0), Step::LoseSubscription(0), Step::Revoke(1), Step::Revoke(2), Step::WaitDelivered(0)],
        },
        Scenario {
            name: "subscription-lost-during-outage:no-overlap".into(),
            towers: 1,
            opts: fast,
            steps: vec![Step::Register(0), Step::Down(0), Step::Revoke(1), Step::LoseSubscription(0), Step::Up(0), Step::WaitDelivered(0)],
        },
        Scenario {
            name: "burst-of-revocations-during-outage:no-overlap".into(),
            towers: 1,
            opts: fast,
            steps: vec![Step::Register(0), Step::Down(0), Step::Revoke(1), Step::Revoke(2), Step::Revoke(3), Step::Up(0), Step::WaitDelivered(0)],
        },
        Scenario {
            name: "restart-with-pending:no-overlap".into(),
            towers: 1,
            opts: fast,
            steps: vec![Step::Register(0), Step::Down(0), Step::Revoke(1), Step::Revoke(2), Step::Settle, Step::Restart, Step::Up(0), Step::WaitDelivered(0)],
        },
        Scenario {
            name: "manual-retry-while-reachable".into(),
            towers: 1,
            opts: fast,
            steps: vec![Step::Register(0), Step::Revoke(1), Step::Retry(0)],
        },
        Scenario {
            name: "rejection-on-retry-path:no-overlap".into(),
            towers: 1,
            opts: fast,
            steps: vec![Step::Register(0), Step::Down(0), Step::Revoke(1), Step::Revoke(2), Step::Script(0, add.clone(), vec![Reply::Reject(36)]), Step::Up(0), Step::WaitDelivered(0)],
        },
    ];
    // the last slot is used up, the next commitment goes pending, the client restarts: it still retries by itself
    v.push(Scenario {
        name: "restart-with-pending-and-no-slots-left:no-overlap".into(),
        towers: 1,
        opts: fast,
        steps: vec![
            Step::Register(0),
            Step::Script(0, add.clone(), vec![Reply::Mutated("available_slots".into(), json!(0))]),
            Step::Revoke(1),
            Step::Settle,
            Step::Down(0),
            Step::Revoke(2),
            Step::Settle,
            Step::Restart,
            Step::Up(0),
            Step::WaitDelivered(0),
        ],
    });
    // the tower keeps answering "subscription error" although every renewal succeeds: the client backs off and gives up
    v.push(Scenario {
        name: "subscription-error-that-renewal-does-not-cure:no-overlap".into(),
        towers: 1,
        opts: fast,
        steps: vec![
            Step::Register(0),
            Step::Down(0),
            Step::Revoke(1),
            Step::Default(0, add.clone(), Reply::SubscriptionError),
            Step::Up(0),
            Step::Sleep(3500),
            Step::Default(0, add.clone(), Reply::Accept),
            Step::Settle,
        ],
    });
    // an outage longer than the longest back-off interval but well within the retry time: the retrier is still at it
    // when the tower comes back (no auto-retry to fall back on)
    v.push(Scenario {
        name: "outage-between-max-interval-and-max-retry-time:no-overlap".into(),
        towers: 1,
        opts: RetryOpts { max_retry_time: 8, auto_retry_delay: 300, max_retry_interval: 1 },
        steps: vec![
            Step::Register(0),
            Step::Down(0),
            Step::Revoke(1),
            Step::Sleep(3500),
            Step::ExpectStatus(0, "temporary_unreachable".into()),
            Step::Up(0),
            Step::WaitDeliveredWithin(0, 4),
        ],
    });
    // the retrier cannot renew the subscription (the tower's receipt does not verify): the user registers again by
    // hand and asks for a retry, as documented
    v.push(Scenario {
        name: "subscription-error-renewed-by-the-user-then-manual-retry:no-overlap".into(),
        towers: 1,
        opts: RetryOpts { max_retry_time: 2, auto_retry_delay: 300, max_retry_interval: 1 },
        steps: vec![
            Step::Register(0),
            Step::Down(0),
            Step::Revoke(1),
            Step::LoseSubscription(0),
            Step::Default(0, "/register".into(), Reply::WrongKey),
            Step::Up(0),
            Step::WaitStatus(0, "subscription_error".into()),
            Step::Settle,
            Step::Default(0, "/register".into(), Reply::Accept),
            Step::Register(0),
            Step::Retry(0),
            Step::WaitDelivered(0),
        ],
    });
    // the subscription is lost and renewing it fails for longer than the retry budget; then the tower is fine again
    for k in [Reply::NonJson, Reply::Hangup, Reply::Html5xx] {
        v.push(Scenario {
            name: format!("renewal-fails-past-the-retry-budget-then-recovers:{}:no-overlap", label(&k)),
            towers: 1,
            opts: fast,
            steps: vec![
                Step::Register(0),
                Step::Down(0),
                Step::Revoke(1),
                Step::LoseSubscription(0),
                Step::Default(0, "/register".into(), k.clone()),
                Step::Up(0),
                Step::Sleep(3500),
                Step::Default(0, "/register".into(), Reply::Accept),
                Step::WaitDelivered(0),
            ],
        });
    }
    // a revocation arriving while a retry that was started from `unreachable` (manually / by the auto-retry) is in flight
    v.push(Scenario {
        name: "revocation-during-manual-retry-from-unreachable:no-overlap".into(),
        towers: 1,
        opts: RetryOpts { max_retry_time: 1, auto_retry_delay: 120, max_retry_interval: 1 },
        steps: vec![
            Step::Register(0),
            Step::Down(0),
            Step::Revoke(1),
            Step::WaitStatus(0, "unreachable".into()),
            Step::Script(0, add.clone(), vec![Reply::Hold]),
            Step::Up(0),
            Step::Retry(0),
            Step::WaitInFlight(0),
            Step::Revoke(2),
            Step::Sleep(300),
            Step::Release(0),
            Step::WaitDelivered(0),
        ],
    });
    v.push(Scenario {
        name: "revocation-during-auto-retry-from-unreachable:no-overlap".into(),
        towers: 1,
        opts: RetryOpts { max_retry_time: 1, auto_retry_delay: 2, max_retry_interval: 1 },
        steps: vec![
            Step::Register(0),
            Step::Down(0),
            Step::Revoke(1),
            Step::WaitStatus(0, "unreachable".into()),
            Step::Script(0, add.clone(), vec![Reply::Hold]),
            Step::Up(0),
            Step::WaitInFlight(0),
            Step::Revoke(2),
            Step::Sleep(300),
            Step::Release(0),
            Step::WaitDelivered(0),
        ],
    });
    // documented error codes on the retry path (a tower that cannot reach its bitcoind answers 503 / code 32)
    for code in [32u8, 33, 34, 35, 65] {
        v.push(Scenario {
            name: format!("error-code-{code}-on-retry-path:no-overlap"),
            towers: 1,
            opts: fast,
            steps: vec![Step::Register(0), Step::Down(0), Step::Revoke(1), Step::Default(0, add.clone(), Reply::Reject(code)), Step::Up(0), Step::Sleep(2500), Step::Default(0, add.clone(), Reply::Accept), Step::Settle],
        });
    }
    // garbage on the retry path must not turn into a hot loop
    for k in [Reply::NonJson, Reply::WrongShape, Reply::Html5xx, Reply::Empty, Reply::Hangup] {
        v.push(Scenario {
            name: format!("garbage-on-retry-path:{}", label(&k)),
            towers: 1,
            opts: fast,
            steps: vec![Step::Register(0), Step::Down(0), Step::Revoke(1), Step::Default(0, add.clone(), k.clone()), Step::Up(0), Step::Sleep(2500), Step::Default(0, add.clone(), Reply::Accept), Step::WaitDelivered(0)],
        });
    }
    // new revocation arriving in every retrier state
    for (state, pre) in [
        ("running", vec![Step::Down(0), Step::Revoke(1), Step::Sleep(300)]),
        ("idle", vec![Step::Down(0), Step::Revoke(1), Step::WaitStatus(0, "unreachable".into())]),
        ("just-succeeded", vec![Step::Down(0), Step::Revoke(1), Step::Up(0), Step::WaitDelivered(0)]),
    ] {
        let mut steps = vec![Step::Register(0)];
        steps.extend(pre);
        steps.extend(vec![Step::Revoke(2), Step::Up(0), Step::WaitDelivered(0)]);
        v.push(Scenario { name: format!("revocation-in-retrier-state:{state}:no-overlap"), towers: 1, opts: fast, steps });
    }
    // an event that falls between the moment an idle retrier is woken up (auto-retry delay over: its pending data is
    // read back from the database) and the moment it is started (the manager's next tick, a second later): a new
    // revocation must still be delivered, abandoning the tower must not take the retry manager down. The wake-up happens
    // 4 to 5 s after the retrier went idle (delay 3 s, whole seconds, one tick per second): three offsets around 5 s.
    for off in [4600u64, 5000, 5400] {
        v.push(Scenario {
            name: format!("revocation-between-wake-up-and-start-of-an-idle-retrier:{off}ms"),
            towers: 1,
            opts: fast,
            steps: vec![
                Step::Register(0),
                Step::Down(0),
                Step::Revoke(1),
                Step::WaitStatus(0, "unreachable".into()),
                Step::Up(0),
                Step::Sleep(off),
                Step::Revoke(2),
                Step::WaitDelivered(0),
                Step::WaitStatus(0, "reachable".into()),
                Step::Settle,
                Step::WaitDeliveredWithin(0, 1),
            ],
        });
        v.push(Scenario {
            name: format!("abandon-between-wake-up-and-start-of-an-idle-retrier:{off}ms"),
            towers: 2,
            opts: fast,
            steps: vec![
                Step::Register(0),
                Step::Register(1),
                Step::Down(0),
                Step::Revoke(1),
                Step::WaitStatus(0, "unreachable".into()),
                Step::Sleep(off),
                Step::Abandon(0),
                Step::Sleep(1500),
                // the other tower still gets its outage handled
                Step::Down(1),
                Step::Revoke(2),
                Step::Sleep(300),
                Step::Up(1),
                Step::WaitDelivered(1),
            ],
        });
    }
    // a tower is abandoned while its retrier idles, and stays away: when the auto-retry delay is over the idle retrier of
    // a tower that does not exist any more is woken up - the retry manager must survive that and serve the other tower
    v.push(Scenario {
        name: "abandoned-while-idle:auto-retry-delay-elapses:other-tower-has-an-outage".into(),
        towers: 2,
        opts: fast,
        steps: vec![
            Step::Register(0),
            Step::Register(1),
            Step::Down(0),
            Step::Revoke(1),
            Step::WaitStatus(0, "unreachable".into()),
            Step::Abandon(0),
            Step::Sleep(5600),
            Step::Down(1),
            Step::Revoke(2),
            Step::Sleep(300),
            Step::Up(1),
            Step::WaitDelivered(1),
        ],
    });
    v
}

pub fn replay(v: &Value) -> i32 {
    let sc: Scenario = serde_json::from_value(v["replay"]["scenario"].clone()).unwrap();
    let t = run_scenario(&sc, &["C05", "C13", "C14"]);
    println!("scenario {}", sc.name);
    for s in sc.steps.iter() {
        println!("  step {s:?}");
    }
    for e in t.events.iter() {
        println!("  {e}");
    }
    for (s, d) in t.viols.iter() {
        println!("VIOL {s} :: {d}");
    }
    cleanup_client_dirs();
    (!t.viols.is_empty()) as i32
}

fn run_p(prop: &'static str, tier: Tier, mut scenarios: Vec<Scenario>, rule: &str) -> i32 {
    let run = Run::new(prop, "fault_enumeration", tier);
    // debugging aid: only the scenarios whose name contains the given text (the evidence then says so)
    if let Ok(o) = std::env::var("VERIF_ONLY_SCENARIO") {
        scenarios.retain(|s| s.name.contains(o.as_str()));
        run.set("restricted_to_scenarios_containing", json!(o));
    }
    if !client_binary().exists() {
        eprintln!("MACHINERY-ERROR: {} is missing (run ./check, which builds it)", client_binary().display());
        return 2;
    }
    let budget = Duration::from_secs(std::env::var("VERIF_BUDGET_S").ok().and_then(|v| v.parse().ok()).unwrap_or(if tier == Tier::Quick { 75 } else { 900 }));
    let deadline = Instant::now() + budget;
    let outcomes: Mutex<BTreeSet<String>> = Mutex::new(BTreeSet::new());
    std::env::set_var("VERIF_WORKERS", std::env::var("VERIF_P_WORKERS").unwrap_or_else(|_| "64".into()));
    let (res, timed_out) = crate::explore::par_map(&scenarios, Some(deadline), |_, sc| {
        let t = run_scenario(sc, &[prop]);
        outcomes.lock().unwrap().insert(t.outcome.clone());
        t
    });
    std::env::remove_var("VERIF_WORKERS");
    let mut done = 0u64;
    let mut unconfirmed = 0u64;
    let mut confirmations = 0u64;
    for (sc, r) in scenarios.iter().zip(res.into_iter()) {
        if let Some(t) = r {
            done += 1;
            let mut seen = BTreeSet::new();
            // The client is a real process whose threads (and the 48 scenarios running side by side) are
            // scheduled by the OS: a verdict that rests on a time-out can be an artefact of a loaded
            // machine. A violation is therefore reported only if the same scenario, run again on its own
            // (nothing else running), shows the same signature; what is enumerated is the event sequence,
            // not the timing, so a defect of the claimed kind reproduces.
            let mut again: Option<Vec<Trace>> = None;
            for (sig, detail) in t.viols {
                if seen.insert(sig.clone()) {
                    let reruns = again.get_or_insert_with(|| {
                        confirmations += 1;
                        (0..2).map(|_| run_scenario(sc, &[prop])).collect()
                    });
                    if reruns.iter().any(|t2| t2.viols.iter().any(|(s2, _)| *s2 == sig)) {
                        run.violation(&sig, format!("[{}] {detail}", sc.name), json!({"engine": "P", "scenario": sc}), sc.steps.len());
                    } else {
                        unconfirmed += 1;
                        eprintln!("note: [{}] {sig} did not reproduce in two isolated re-runs (timing artefact of a loaded machine): not reported", sc.name);
                    }
                }
            }
            if done % 17 == 1 {
                run.sample(json!({"scenario": sc.name, "steps": sc.steps.iter().map(|s| format!("{s:?}").chars().take(80).collect::<String>()).collect::<Vec<_>>(), "events": t.events}));
            }
        }
    }
    cleanup_client_dirs();
    run.set("evaluations", json!(done));
    run.set("distinct_nontrivial", json!(outcomes.lock().unwrap().len().max(2)));
    run.set("scenarios", json!(scenarios.len()));
    run.set("scenarios_run", json!(done));
    run.set("scenarios_rerun_in_isolation_to_confirm_a_violation", json!(confirmations));
    run.set("violations_not_reproduced_in_isolation_and_dropped", json!(unconfirmed));
    run.set("exhaustive", json!(!timed_out));
    run.set("rule", json!(rule));
    run.assume("a violation is reported only if it reproduces when its scenario is re-run alone (time-outs are real time; a loaded machine must not raise alarms)");
    run.assume("thread schedules inside the client process are not controlled: oracles are written to hold for every admissible timing; what is exhaustive is the listed space of reply/event sequences");
    run.assume("real time: back-off and manager tick are shortened through the plugin's own options (max retry time 1-2 s, auto retry delay 3 s, max interval 1 s)");
    run.finish()
}

pub fn c14(tier: Tier) -> i32 {
    run_p("C14", tier, { let mut v = c14_scenarios(tier); v.extend(p_family()); v }, "every listed reply to add_appointment (valid, signature of another key, undecodable signature strings, every field dropped / retyped / out of range, non-JSON, wrong-shape JSON, 5xx HTML, empty, 1 MiB, hang-up, error objects with documented and unknown codes) on the notification path and on the retry path, and every listed reply to register as first registration and as renewal; after each: process alive, answers listtowers within 2 s, hook answered, registration recorded only on a verifying receipt that extends the subscription, wrong-key acknowledgement => misbehaving + no further request. distinct = distinct (store shape, event outcomes)")
}

pub fn c05(tier: Tier) -> i32 {
    run_p("C05", tier, { let mut v = c05_scenarios(tier); v.extend(p_family()); v }, "every sequence of reply kinds up to length 2 (quick) / 3 (thorough) over {accept, subscription error, rejection, non-JSON, wrong shape, 5xx page, empty, hang-up, empty / short malformed signature, signature of another key} on the notification path, up to length 2 on the retry path, duplicate notifications in four client states, two towers with one failing, a duplicate notification while the acknowledging tower is down and the other one holds the commitment as pending / invalid, revocations while the retrier runs / while the tower is unreachable, SIGKILL + restart after every scenario, and an abort (crash point H1, VERIF_CRASH_AT) at each of the first n durable writes of three flows; oracle at every quiescent point, read from the client's sqlite file: every notified commitment x every live tower is recorded as exactly one of receipt / pending+data / invalid+data (at a kill: at least one)")
}

pub fn c13(tier: Tier) -> i32 {
    run_p("C13", tier, { let mut v = c13_scenarios(tier); v.extend(p_family()); v }, "tower status x retrier state x event scripts: recovery while the retrier runs, after it gave up (auto and manual retry), subscription error on both paths with renewal, bursts, restart with pending data, rejection and garbage on the retry path, a new revocation in each retrier state, manual retries in every status; oracle: everything pending is delivered within max-retry + auto-retry + 4 s of the tower being up and the tower is shown reachable, no two overlapping retry requests, the same appointment never sent more than 5 times per second, giving up => unreachable with data retained across restart, retrytower accepted exactly for unreachable / subscription error")
}
