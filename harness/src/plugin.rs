//! Engine P: the real `watchtower-client` binary driven over its stdin/stdout plugin protocol
//! against scripted fake towers on loopback.

use std::collections::{HashMap, VecDeque};
use std::io::{BufRead, BufReader, Read, Write};
use std::net::{TcpListener, TcpStream};
use std::path::PathBuf;
use std::process::{Child, ChildStdin, Command, Stdio};
use std::sync::atomic::{AtomicBool, AtomicU64, Ordering};
use std::sync::mpsc::{channel, Receiver};
use std::sync::{Arc, Mutex};
use std::time::{Duration, Instant};

use serde_json::{json, Value};

use teos_common::receipts::{AppointmentReceipt, RegistrationReceipt};
use teos_common::UserId;

use crate::tower::Keys;

pub fn client_binary() -> PathBuf {
    if let Ok(p) = std::env::var("VERIF_CLIENT_BIN") {
        return PathBuf::from(p);
    }
    crate::report::verif_dir().join("harness/target/repo-bins/debug/watchtower-client")
}

// =============================================================================================
// fake tower
// =============================================================================================

#[derive(Clone, Debug, PartialEq, serde::Serialize, serde::Deserialize)]
pub enum Reply {
    /// a valid, correctly signed answer
    Accept,
    /// the listener is closed for this one attempt
    Refuse,
    /// 401 {error, error_code: 7}
    SubscriptionError,
    /// 400 {error, error_code}
    Reject(u8),
    /// 200 with a body that is not JSON
    NonJson,
    /// 200 with JSON of another shape
    WrongShape,
    /// 502 with an HTML page
    Html5xx,
    /// 200 with an empty body
    Empty,
    /// 200 with a 1 MiB body
    Oversized,
    /// a well formed answer signed by another key
    WrongKey,
    /// a well formed answer whose signature string cannot be decoded
    BadSignature(String),
    /// a valid answer with one field replaced
    Mutated(String, Value),
    /// a valid answer with one field removed
    Dropped(String),
    /// answer only after being released
    Hold,
    /// answer only after being released, and then with a well formed answer signed by another key
    HoldThenWrongKey,
    /// a valid answer, that many milliseconds late
    Slow(u64),
    /// close the connection without answering
    Hangup,
    /// 200 with exactly these bytes
    Raw(Vec<u8>),
}

#[derive(Clone, Debug)]
pub struct Seen {
    pub path: String,
    pub body: Value,
    pub at: Instant,
    /// when the answer had been written (None: not yet)
    pub answered_at: Option<Instant>,
    pub answered_with: Reply,
}

#[derive(Default)]
pub struct TowerState {
    pub up: bool,
    pub script: HashMap<String, VecDeque<Reply>>,
    pub default: HashMap<String, Reply>,
    pub log: Vec<Seen>,
    pub registrations: u32,
    pub release: bool,
    pub in_flight: u32,
    pub max_in_flight_add: u32,
    pub in_flight_add: u32,
    /// registrations answered with a receipt that does not extend the previous one
    pub stale_registration: bool,
    /// the tower has lost the subscription: add_appointment is refused (code 7) until /register is called
    pub needs_renewal: bool,
}

pub struct FakeTower {
    pub keys: Keys,
    pub port: u16,
    pub state: Arc<Mutex<TowerState>>,
    stop: Arc<AtomicBool>,
}

impl Drop for FakeTower {
    fn drop(&mut self) {
        self.stop.store(true, Ordering::SeqCst);
    }
}

fn http_reply(status: u16, body: &[u8], content_type: &str) -> Vec<u8> {
    let reason = match status {
        200 => "OK",
        400 => "Bad Request",
        401 => "Unauthorized",
        404 => "Not Found",
        502 => "Bad Gateway",
        503 => "Service Unavailable",
        _ => "X",
    };
    let mut v = format!("HTTP/1.1 {status} {reason}\r\nContent-Type: {content_type}\r\nContent-Length: {}\r\nConnection: close\r\n\r\n", body.len()).into_bytes();
    v.extend_from_slice(body);
    v
}

impl FakeTower {
    pub fn start(key_byte: u8) -> FakeTower {
        let listener = TcpListener::bind("127.0.0.1:0").unwrap();
        let port = listener.local_addr().unwrap().port();
        let keys = Keys::from_byte(key_byte);
        let state = Arc::new(Mutex::new(TowerState { up: true, ..Default::default() }));
        let stop = Arc::new(AtomicBool::new(false));
        let (st, sp, k) = (state.clone(), stop.clone(), keys.clone());
        std::thread::spawn(move || {
            let mut listener = Some(listener);
            loop {
                if sp.load(Ordering::SeqCst) {
                    break;
                }
                let up = st.lock().unwrap().up;
                if !up {
                    listener = None;
                    std::thread::sleep(Duration::from_millis(5));
                    continue;
                }
                if listener.is_none() {
                    match TcpListener::bind(("127.0.0.1", port)) {
                        Ok(l) => listener = Some(l),
                        Err(_) => {
                            std::thread::sleep(Duration::from_millis(5));
                            continue;
                        }
                    }
                }
                let l = listener.as_ref().unwrap();
                l.set_nonblocking(true).unwrap();
                match l.accept() {
                    Ok((stream, _)) => {
                        stream.set_nonblocking(false).unwrap();
                        let (st2, k2) = (st.clone(), k.clone());
                        std::thread::spawn(move || handle(stream, st2, k2));
                    }
                    Err(_) => std::thread::sleep(Duration::from_millis(2)),
                }
            }
        });
        FakeTower { keys, port, state, stop }
    }

    pub fn id_hex(&self) -> String {
        self.keys.hex()
    }

    pub fn set_up(&self, up: bool) {
        self.state.lock().unwrap().up = up;
        // give the acceptor time to close / reopen the socket
        std::thread::sleep(Duration::from_millis(25));
    }

    pub fn script(&self, path: &str, replies: &[Reply]) {
        self.state.lock().unwrap().script.entry(path.to_owned()).or_default().extend(replies.iter().cloned());
    }

    pub fn set_default(&self, path: &str, reply: Reply) {
        self.state.lock().unwrap().default.insert(path.to_owned(), reply);
    }

    pub fn release(&self) {
        self.state.lock().unwrap().release = true;
    }

    pub fn requests(&self, path: &str) -> Vec<Seen> {
        self.state.lock().unwrap().log.iter().filter(|s| s.path == path).cloned().collect()
    }
}

fn handle(mut stream: TcpStream, state: Arc<Mutex<TowerState>>, keys: Keys) {
    let _ = stream.set_read_timeout(Some(Duration::from_secs(5)));
    let mut reader = BufReader::new(stream.try_clone().unwrap());
    let mut first = String::new();
    if reader.read_line(&mut first).is_err() {
        return;
    }
    let path = first.split_whitespace().nth(1).unwrap_or("").to_owned();
    let mut len = 0usize;
    loop {
        let mut line = String::new();
        if reader.read_line(&mut line).is_err() || line == "\r\n" || line.is_empty() {
            break;
        }
        if let Some(v) = line.to_lowercase().strip_prefix("content-length:") {
            len = v.trim().parse().unwrap_or(0);
        }
    }
    let mut body = vec![0u8; len];
    let _ = reader.read_exact(&mut body);
    let body_json: Value = serde_json::from_slice(&body).unwrap_or(Value::Null);

    let log_idx;
    let reply = {
        let mut st = state.lock().unwrap();
        let mut r = st.script.get_mut(&path).and_then(|q| q.pop_front()).or_else(|| st.default.get(&path).cloned()).unwrap_or(Reply::Accept);
        if path == "/add_appointment" && st.needs_renewal && r == Reply::Accept {
            r = Reply::SubscriptionError;
        }
        if path == "/register" && r == Reply::Accept {
            st.needs_renewal = false;
        }
        st.in_flight += 1;
        if path == "/add_appointment" {
            st.in_flight_add += 1;
            st.max_in_flight_add = st.max_in_flight_add.max(st.in_flight_add);
        }
        st.log.push(Seen { path: path.clone(), body: body_json.clone(), at: Instant::now(), answered_at: None, answered_with: r.clone() });
        log_idx = st.log.len() - 1;
        r
    };
    let done = |state: &Arc<Mutex<TowerState>>| {
        let mut st = state.lock().unwrap();
        st.in_flight -= 1;
        if path == "/add_appointment" {
            st.in_flight_add -= 1;
        }
        if let Some(s) = st.log.get_mut(log_idx) {
            s.answered_at = Some(Instant::now());
        }
    };
    if let Reply::Slow(ms) = reply {
        std::thread::sleep(Duration::from_millis(ms));
    }
    if reply == Reply::Hold || reply == Reply::HoldThenWrongKey {
        let start = Instant::now();
        while !state.lock().unwrap().release && start.elapsed() < Duration::from_secs(30) {
            std::thread::sleep(Duration::from_millis(5));
        }
    }
    // build the valid answer first
    let valid: Value = match path.as_str() {
        "/register" => {
            let uid = body_json["user_id"].as_str().and_then(|s| hex::decode(s).ok()).and_then(|b| UserId::from_slice(&b).ok());
            match uid {
                Some(uid) => {
                    let mut st = state.lock().unwrap();
                    if !matches!(reply, Reply::Accept | Reply::Slow(_) | Reply::Hold | Reply::WrongKey | Reply::BadSignature(_) | Reply::Mutated(..) | Reply::Dropped(_)) {
                        // failed registrations do not advance the subscription
                    } else if !st.stale_registration {
                        st.registrations += 1;
                    }
                    let n = st.registrations.max(1);
                    let signer = if reply == Reply::WrongKey { Keys::from_byte(0x5e) } else { keys.clone() };
                    let mut r = RegistrationReceipt::new(uid, 100 * n, 1000, 2000 + 1000 * n);
                    r.sign(&signer.sk);
                    let sig = if let Reply::BadSignature(s) = &reply { s.clone() } else { r.signature().unwrap() };
                    json!({"user_id": hex::encode(uid.to_vec()), "available_slots": 100 * n, "subscription_start": 1000, "subscription_expiry": 2000 + 1000 * n, "subscription_signature": sig})
                }
                None => json!({"error": "bad user id", "error_code": 5}),
            }
        }
        "/add_appointment" => {
            let user_sig = body_json["signature"].as_str().unwrap_or("").to_owned();
            let signer = if reply == Reply::WrongKey || reply == Reply::HoldThenWrongKey { Keys::from_byte(0x5e) } else { keys.clone() };
            let mut r = AppointmentReceipt::new(user_sig, 1234);
            r.sign(&signer.sk);
            let sig = if let Reply::BadSignature(s) = &reply { s.clone() } else { r.signature().unwrap() };
            json!({"locator": body_json["appointment"]["locator"], "start_block": 1234, "signature": sig, "available_slots": 99, "subscription_expiry": 3000})
        }
        "/ping" => json!({}),
        _ => json!({"error": "unknown endpoint", "error_code": 6}),
    };
    let bytes: Option<Vec<u8>> = match &reply {
        Reply::Accept | Reply::Slow(_) | Reply::Hold | Reply::HoldThenWrongKey | Reply::WrongKey | Reply::BadSignature(_) => Some(http_reply(200, valid.to_string().as_bytes(), "application/json")),
        Reply::Mutated(field, v) => {
            let mut x = valid.clone();
            x[field] = v.clone();
            Some(http_reply(200, x.to_string().as_bytes(), "application/json"))
        }
        Reply::Dropped(field) => {
            let mut x = valid.clone();
            x.as_object_mut().map(|m| m.remove(field));
            Some(http_reply(200, x.to_string().as_bytes(), "application/json"))
        }
        Reply::SubscriptionError => Some(http_reply(401, json!({"error": "Invalid signature or user does not have enough slots available", "error_code": 7}).to_string().as_bytes(), "application/json")),
        Reply::Reject(code) => Some(http_reply(400, json!({"error": "rejected", "error_code": code}).to_string().as_bytes(), "application/json")),
        Reply::NonJson => Some(http_reply(200, b"<<< this is not json >>>", "text/plain")),
        Reply::WrongShape => Some(http_reply(200, json!({"foo": 1, "bar": [1, 2, 3]}).to_string().as_bytes(), "application/json")),
        Reply::Html5xx => Some(http_reply(502, b"<html><body><h1>502 Bad Gateway</h1></body></html>", "text/html")),
        Reply::Empty => Some(http_reply(200, b"", "application/json")),
        Reply::Oversized => Some(http_reply(200, format!("{{\"pad\":\"{}\"}}", "x".repeat(1 << 20)).as_bytes(), "application/json")),
        Reply::Raw(b) => Some(http_reply(200, b, "application/json")),
        Reply::Refuse | Reply::Hangup => None,
    };
    if let Some(b) = bytes {
        let _ = stream.write_all(&b);
        let _ = stream.flush();
    }
    let _ = stream.shutdown(std::net::Shutdown::Both);
    done(&state);
}

// =============================================================================================
// the client process
// =============================================================================================

#[derive(Clone, Copy, Debug, serde::Serialize, serde::Deserialize)]
pub struct RetryOpts {
    pub max_retry_time: u16,
    pub auto_retry_delay: u32,
    pub max_retry_interval: u16,
}

impl Default for RetryOpts {
    fn default() -> Self {
        RetryOpts { max_retry_time: 2, auto_retry_delay: 3, max_retry_interval: 1 }
    }
}

static DIRS: AtomicU64 = AtomicU64::new(0);

pub struct ClientDir(pub PathBuf);
impl ClientDir {
    pub fn new() -> ClientDir {
        let base = if std::path::Path::new("/dev/shm").is_dir() { PathBuf::from("/dev/shm") } else { std::env::temp_dir() };
        let d = base.join(format!("verif-client-{}", std::process::id())).join(format!("{}", DIRS.fetch_add(1, Ordering::Relaxed)));
        let _ = std::fs::remove_dir_all(&d);
        std::fs::create_dir_all(&d).unwrap();
        ClientDir(d)
    }
}
impl Drop for ClientDir {
    fn drop(&mut self) {
        let _ = std::fs::remove_dir_all(&self.0);
    }
}

pub fn cleanup_client_dirs() {
    let base = if std::path::Path::new("/dev/shm").is_dir() { PathBuf::from("/dev/shm") } else { std::env::temp_dir() };
    let _ = std::fs::remove_dir_all(base.join(format!("verif-client-{}", std::process::id())));
}

pub struct Client {
    child: Child,
    stdin: Option<ChildStdin>,
    rx: Receiver<Value>,
    next_id: u64,
    pub logs: Vec<String>,
    pub stderr: Arc<Mutex<String>>,
}

impl Drop for Client {
    fn drop(&mut self) {
        let _ = self.child.kill();
        let _ = self.child.wait();
    }
}

impl Client {
    /// Starts the plugin and performs the getmanifest / init handshake.
    pub fn start(dir: &ClientDir, opts: RetryOpts, crash_at: Option<u64>) -> Option<Client> {
        let mut cmd = Command::new(client_binary());
        cmd.env("TOWERS_DATA_DIR", &dir.0).env_remove("VERIF_CRASH_AT").stdin(Stdio::piped()).stdout(Stdio::piped()).stderr(Stdio::piped());
        if let Some(n) = crash_at {
            cmd.env("VERIF_CRASH_AT", n.to_string());
        }
        let mut child = cmd.spawn().ok()?;
        let stdin = child.stdin.take();
        let stdout = child.stdout.take().unwrap();
        let stderr_pipe = child.stderr.take().unwrap();
        let (tx, rx) = channel();
        std::thread::spawn(move || {
            let it = serde_json::Deserializer::from_reader(BufReader::new(stdout)).into_iter::<Value>();
            for v in it {
                match v {
                    Ok(v) => {
                        if tx.send(v).is_err() {
                            break;
                        }
                    }
                    Err(_) => break,
                }
            }
        });
        let stderr = Arc::new(Mutex::new(String::new()));
        let se = stderr.clone();
        std::thread::spawn(move || {
            let mut r = BufReader::new(stderr_pipe);
            let mut line = String::new();
            while r.read_line(&mut line).map_or(false, |n| n > 0) {
                let mut g = se.lock().unwrap();
                if g.len() < 20_000 {
                    g.push_str(&line);
                }
                line.clear();
            }
        });
        let mut c = Client { child, stdin, rx, next_id: 1, logs: vec![], stderr };
        c.call("getmanifest", json!({"allow-deprecated-apis": false}), Duration::from_secs(10))?;
        c.call(
            "init",
            json!({
                "options": {
                    "watchtower-port": 9814,
                    "watchtower-max-retry-time": opts.max_retry_time,
                    "watchtower-auto-retry-delay": opts.auto_retry_delay,
                    "dev-watchtower-max-retry-interval": opts.max_retry_interval,
                },
                "configuration": {
                    "lightning-dir": dir.0.to_string_lossy(),
                    "rpc-file": "lightning-rpc",
                    "startup": true,
                    "network": "regtest",
                    "feature_set": {"init": "", "node": "", "channel": "", "invoice": ""},
                }
            }),
            Duration::from_secs(10),
        )?;
        Some(c)
    }

    pub fn alive(&mut self) -> bool {
        matches!(self.child.try_wait(), Ok(None))
    }

    pub fn exit_status(&mut self) -> Option<String> {
        self.child.try_wait().ok().flatten().map(|s| format!("{s}"))
    }

    pub fn kill(&mut self) {
        let _ = self.child.kill();
        let _ = self.child.wait();
    }

    /// Sends a request without waiting for its answer; returns its id.
    pub fn send(&mut self, method: &str, params: Value) -> u64 {
        let id = self.next_id;
        self.next_id += 1;
        let msg = json!({"jsonrpc": "2.0", "id": id, "method": method, "params": params});
        if let Some(s) = self.stdin.as_mut() {
            let _ = s.write_all(format!("{msg}\n\n").as_bytes());
            let _ = s.flush();
        }
        id
    }

    /// Waits for the answer to request `id`.
    pub fn wait_for(&mut self, id: u64, timeout: Duration) -> Option<Value> {
        let deadline = Instant::now() + timeout;
        loop {
            let left = deadline.checked_duration_since(Instant::now())?;
            match self.rx.recv_timeout(left) {
                Ok(v) => {
                    if v.get("method").and_then(|m| m.as_str()) == Some("log") {
                        if self.logs.len() < 2000 {
                            self.logs.push(v["params"]["message"].as_str().unwrap_or("").to_owned());
                        }
                        continue;
                    }
                    if v.get("id").and_then(|i| i.as_u64()) == Some(id) {
                        return Some(v);
                    }
                }
                Err(_) => return None,
            }
        }
    }

    pub fn call(&mut self, method: &str, params: Value, timeout: Duration) -> Option<Value> {
        let id = self.send(method, params);
        self.wait_for(id, timeout)
    }
}

// =============================================================================================
// revocations, store view
// =============================================================================================

/// The i-th commitment revocation: (hook payload, locator hex).
pub fn revocation(i: u8) -> (Value, String) {
    let d = crate::sim::build_tx(crate::sim::TxName::D(i));
    let p = crate::sim::build_tx(crate::sim::TxName::P(i));
    let txid = d.compute_txid();
    let loc = teos_common::appointment::Locator::new(txid);
    (
        json!({
            "channel_id": "aa".repeat(32),
            "commitnum": i as u32,
            "commitment_txid": txid.to_string(),
            "penalty_tx": hex::encode(bitcoin::consensus::serialize(&p)),
        }),
        hex::encode(loc.to_vec()),
    )
}

#[derive(Clone, Debug, Default, PartialEq, Eq)]
pub struct Store {
    /// (tower id hex, locator hex)
    pub receipts: Vec<(String, String)>,
    pub pending: Vec<(String, String)>,
    pub invalid: Vec<(String, String)>,
    pub bodies: Vec<String>,
    pub towers: Vec<String>,
    pub proofs: Vec<String>,
    /// registration receipts in the order they were recorded: (tower id hex, slots, start, expiry, signature)
    pub registrations: Vec<(String, u32, u32, u32, String)>,
}

pub fn read_store(dir: &ClientDir) -> Option<Store> {
    let path = dir.0.join("watchtowers_db.sql3");
    if !path.exists() {
        return Some(Store::default());
    }
    let conn = rusqlite::Connection::open_with_flags(&path, rusqlite::OpenFlags::SQLITE_OPEN_READ_ONLY).ok()?;
    let _ = conn.busy_timeout(Duration::from_millis(500));
    let pairs = |table: &str| -> Option<Vec<(String, String)>> {
        let mut st = conn.prepare(&format!("SELECT lower(hex(tower_id)), lower(hex(locator)) FROM {table} ORDER BY 1, 2")).ok()?;
        let rows = st.query_map([], |r| Ok((r.get::<_, String>(0)?, r.get::<_, String>(1)?))).ok()?;
        Some(rows.filter_map(|r| r.ok()).collect())
    };
    let single = |sql: &str| -> Option<Vec<String>> {
        let mut st = conn.prepare(sql).ok()?;
        let rows = st.query_map([], |r| r.get::<_, String>(0)).ok()?;
        Some(rows.filter_map(|r| r.ok()).collect())
    };
    Some(Store {
        receipts: pairs("appointment_receipts")?,
        pending: pairs("pending_appointments")?,
        invalid: pairs("invalid_appointments")?,
        bodies: single("SELECT lower(hex(locator)) FROM appointments ORDER BY 1")?,
        towers: single("SELECT lower(hex(tower_id)) FROM towers ORDER BY 1")?,
        proofs: single("SELECT lower(hex(tower_id)) FROM misbehaving_proofs ORDER BY 1")?,
        registrations: {
            let mut st = conn.prepare("SELECT lower(hex(tower_id)), available_slots, subscription_start, subscription_expiry, CAST(signature AS TEXT) FROM registration_receipts ORDER BY rowid").ok()?;
            let rows = st.query_map([], |r| Ok((r.get::<_, String>(0)?, r.get::<_, u32>(1)?, r.get::<_, u32>(2)?, r.get::<_, u32>(3)?, r.get::<_, Option<String>>(4)?.unwrap_or_default()))).ok()?;
            rows.filter_map(|r| r.ok()).collect()
        },
    })
}

/// Polls `f` until it returns true or `timeout` elapses.
pub fn wait_until<F: FnMut() -> bool>(timeout: Duration, mut f: F) -> bool {
    let deadline = Instant::now() + timeout;
    loop {
        if f() {
            return true;
        }
        if Instant::now() > deadline {
            return false;
        }
        std::thread::sleep(Duration::from_millis(20));
    }
}
