//! C15 (HTTP surface) and C16 (wire agreement): finite request / message grids through the real warp
//! router, the real tonic server and (C15) the real tower, (C16) the client's real request code.

use std::collections::BTreeSet;
use std::sync::{Arc, Mutex as StdMutex};
use std::time::Duration;

use serde_json::{json, Value};

use teos_common::appointment::{Appointment, Locator};
use teos_common::protos as common_msgs;

use crate::httpx::{send, Front, Reply, Req};
use crate::report::{Run, Tier};
use crate::sim::{txid_of, TxName};
use crate::tower::{user_keys, TowerCfg};
use crate::world::{make_blob, Blob, Ev, MineSel, World};

const DOCUMENTED: [u64; 13] = [1, 2, 3, 4, 5, 6, 7, 32, 33, 34, 35, 36, 65];
const ENDPOINTS: [(&str, usize); 4] = [("/register", 87), ("/add_appointment", 2048), ("/get_appointment", 178), ("/get_subscription_info", 127)];

fn limit_of(path: &str) -> Option<usize> {
    ENDPOINTS.iter().find(|(p, _)| *p == path).map(|(_, l)| *l)
}

struct Case {
    req: Req,
    /// the reply must be 200 with the documented fields
    valid: Option<&'static str>,
    desc: String,
}

fn valid_bodies() -> Vec<(&'static str, Value)> {
    let u1 = user_keys(1);
    let l1 = Locator::new(txid_of(TxName::D(1)));
    let l2 = Locator::new(txid_of(TxName::D(2)));
    let a = Appointment::new(l1, make_blob(1, Blob::Valid), 42);
    vec![
        ("/register", json!({"user_id": user_keys(2).hex()})),
        (
            "/add_appointment",
            json!({"appointment": {"locator": hex::encode(l1.to_vec()), "encrypted_blob": hex::encode(&a.encrypted_blob), "to_self_delay": 42}, "signature": u1.sign(&a.to_vec())}),
        ),
        ("/get_appointment", json!({"locator": hex::encode(l2.to_vec()), "signature": u1.sign(format!("get appointment {}", hex::encode(l2.to_vec())).as_bytes())})),
        ("/get_subscription_info", json!({"signature": u1.sign(b"get subscription info")})),
    ]
}

/// All leaf paths of a JSON object (and the nested `appointment` object itself).
fn paths(v: &Value, prefix: Vec<String>, out: &mut Vec<Vec<String>>) {
    if let Value::Object(m) = v {
        for (k, x) in m {
            let mut p = prefix.clone();
            p.push(k.clone());
            out.push(p.clone());
            paths(x, p, out);
        }
    }
}

fn set_path(v: &mut Value, path: &[String], new: Option<Value>) {
    if path.len() == 1 {
        match new {
            Some(n) => {
                v[&path[0]] = n;
            }
            None => {
                v.as_object_mut().unwrap().remove(&path[0]);
            }
        }
    } else {
        set_path(&mut v[&path[0]], &path[1..], new);
    }
}

fn get_path<'a>(v: &'a Value, path: &[String]) -> &'a Value {
    if path.is_empty() {
        v
    } else {
        get_path(&v[&path[0]], &path[1..])
    }
}

fn field_mutations(orig: &Value) -> Vec<(String, Option<Value>)> {
    let mut m: Vec<(String, Option<Value>)> = vec![
        ("dropped".into(), None),
        ("null".into(), Some(Value::Null)),
        ("number".into(), Some(json!(7))),
        ("array".into(), Some(json!([]))),
        ("object".into(), Some(json!({}))),
        ("empty-string".into(), Some(json!(""))),
        ("bool".into(), Some(json!(true))),
    ];
    if let Some(s) = orig.as_str() {
        m.push(("odd-hex".into(), Some(json!(format!("{s}a")))));
        m.push(("non-hex".into(), Some(json!(format!("zz{}", &s[2.min(s.len())..])))));
        if s.len() >= 4 {
            m.push(("one-byte-short".into(), Some(json!(s[..s.len() - 2].to_owned()))));
        }
        m.push(("one-byte-long".into(), Some(json!(format!("{s}00")))));
        m.push(("unicode".into(), Some(json!("\u{1F600}\u{00e9}"))));
    }
    // long values of multi-byte characters, at every alignment (error texts quote the offending value back: whatever
    // the router does to that text - shorten it, escape it - must cope with a character that straddles a boundary)
    for (cname, ch, n) in [("2-byte", "\u{00e9}", 70usize), ("3-byte", "\u{20ac}", 50), ("4-byte", "\u{1D11E}", 40)] {
        for pad in 0..4usize {
            m.push((format!("long-{cname}-characters-offset-{pad}"), Some(json!(format!("{}{}", "a".repeat(pad), ch.repeat(n))))));
        }
    }
    if orig.is_number() {
        for (n, x) in [("minus-one", json!(-1)), ("zero", json!(0)), ("u32-max", json!(4294967295u64)), ("u32-max-plus-one", json!(4294967296u64)), ("float", json!(1.5)), ("string-number", json!("1")), ("huge", json!(1e300))] {
            m.push((n.into(), Some(x)));
        }
    }
    m
}

fn build_cases(tier: Tier) -> Vec<Case> {
    let mut cases: Vec<Case> = Vec::new();
    let bodies = valid_bodies();
    // 1. single-field mutations (thorough: all pairs on add_appointment)
    for (path, body) in bodies.iter() {
        let mut ps = Vec::new();
        paths(body, vec![], &mut ps);
        for p in ps.iter() {
            for (name, new) in field_mutations(get_path(body, p)) {
                let mut b = body.clone();
                set_path(&mut b, p, new);
                cases.push(Case { req: Req::post(path, b.to_string().as_bytes()), valid: None, desc: format!("{path} {} {name}", p.join(".")) });
            }
            // duplicated key (raw text)
            let txt = body.to_string();
            let key = p.last().unwrap();
            if let Some(i) = txt.find(&format!("\"{key}\":")) {
                let dup = format!("{}\"{key}\":7,{}", &txt[..i], &txt[i..]);
                cases.push(Case { req: Req::post(path, dup.as_bytes()), valid: None, desc: format!("{path} {} duplicated", p.join(".")) });
            }
        }
        {
            for (i, p1) in ps.iter().enumerate() {
                for p2 in ps.iter().skip(i + 1) {
                    if p2.starts_with(p1) || p1.starts_with(p2) {
                        continue;
                    }
                    for (n1, m1) in field_mutations(get_path(body, p1)) {
                        for (n2, m2) in field_mutations(get_path(body, p2)) {
                            let mut b = body.clone();
                            set_path(&mut b, p1, m1.clone());
                            set_path(&mut b, p2, m2);
                            cases.push(Case { req: Req::post(path, b.to_string().as_bytes()), valid: None, desc: format!("{path} {}:{n1} + {}:{n2}", p1.join("."), p2.join(".")) });
                        }
                    }
                }
            }
        }
    }
    // 2. blob lengths on add_appointment (signed correctly: these are valid requests unless too big)
    let u1 = user_keys(1);
    let l3 = Locator::new(txid_of(TxName::D(3)));
    for n in [0usize, 1, 2, 63, 64, 500, 890, 900, 950, 1000] {
        let a = Appointment::new(l3, vec![0xabu8; n], 1);
        let b = json!({"appointment": {"locator": hex::encode(l3.to_vec()), "encrypted_blob": hex::encode(&a.encrypted_blob), "to_self_delay": 1}, "signature": u1.sign(&a.to_vec())});
        cases.push(Case { req: Req::post("/add_appointment", b.to_string().as_bytes()), valid: None, desc: format!("/add_appointment blob of {n} bytes, correctly signed") });
    }
    // 3. nesting, raw strings, single bytes, sizes around the limit, missing content-length
    let depths: Vec<usize> = if tier == Tier::Quick { vec![1, 2, 3, 10, 50, 100, 127, 128, 129, 200] } else { (1..=200).collect() };
    for (path, limit) in ENDPOINTS.iter() {
        for d in depths.iter() {
            let nested = format!("{}{}", "[".repeat(*d), "]".repeat(*d));
            cases.push(Case { req: Req::post(path, nested.as_bytes()), valid: None, desc: format!("{path} nesting depth {d}") });
            let nested_obj = format!("{}1{}", "{\"a\":".repeat(*d), "}".repeat(*d));
            cases.push(Case { req: Req::post(path, nested_obj.as_bytes()), valid: None, desc: format!("{path} object nesting depth {d}") });
        }
        for raw in ["", " ", "{", "}", "null", "[]", "\"str\"", "123", "{\"a\":1}", "{}", "true", "{\"signature\":\"x\"", "\u{feff}{}", "{\"user_id\":\"\\ud800\"}"] {
            cases.push(Case { req: Req::post(path, raw.as_bytes()), valid: None, desc: format!("{path} raw {raw:?}") });
        }
        // a body that is one long string of multi-byte characters, at every alignment
        for (ch, n) in [("\u{00e9}", 70usize), ("\u{20ac}", 50), ("\u{1D11E}", 40)] {
            for pad in 0..4usize {
                let raw = format!("\"{}{}\"", "a".repeat(pad), ch.repeat(n));
                cases.push(Case { req: Req::post(path, raw.as_bytes()), valid: None, desc: format!("{path} raw string of {n} {}-byte characters after {pad} ASCII ones", ch.len()) });
            }
        }
        let bytes: Vec<u8> = (0..=255u8).collect();
        for b in bytes {
            cases.push(Case { req: Req::post(path, &[b]), valid: None, desc: format!("{path} single byte 0x{b:02x}") });
        }
        let (_, body) = bodies.iter().find(|(p, _)| p == path).unwrap();
        let txt = body.to_string();
        for target in [limit - 1, *limit, limit + 1, limit + 1000] {
            if target >= txt.len() {
                let padded = format!("{}{}", txt, " ".repeat(target - txt.len()));
                cases.push(Case { req: Req::post(path, padded.as_bytes()), valid: None, desc: format!("{path} valid body padded to {target} bytes (limit {limit})") });
            }
        }
        let mut r = Req::post(path, txt.as_bytes());
        r.content_length = false;
        cases.push(Case { req: r, valid: None, desc: format!("{path} without content-length") });
        let mut r = Req::post(path, txt.as_bytes());
        r.content_type = Some("text/plain".into());
        cases.push(Case { req: r, valid: None, desc: format!("{path} content-type text/plain") });
        let mut r = Req::post(path, txt.as_bytes());
        r.content_type = None;
        cases.push(Case { req: r, valid: None, desc: format!("{path} no content-type") });
    }
    // 4. methods x paths
    for method in ["GET", "POST", "PUT", "DELETE", "PATCH", "HEAD"] {
        for path in ["/register", "/add_appointment", "/get_appointment", "/get_subscription_info", "/ping", "/unknown", "/register/", "/", "/Register"] {
            let body = bodies.iter().find(|(p, _)| *p == path).map(|(_, b)| b.to_string()).unwrap_or_default();
            let mut r = Req::post(path, body.as_bytes());
            r.method = method.into();
            cases.push(Case { req: r, valid: if method == "GET" && path == "/ping" { Some("/ping") } else { None }, desc: format!("{method} {path}") });
        }
    }
    // 5. the valid requests themselves (last: they change state)
    for (path, body) in bodies.iter() {
        cases.push(Case { req: Req::post(path, body.to_string().as_bytes()), valid: Some(path), desc: format!("{path} valid") });
    }
    cases
}

fn state_of(w: &World) -> String {
    let (db, _snap, _) = w.fingerprint_parts();
    let gk = w.tower.as_ref().unwrap().gatekeeper.verif_snapshot();
    format!("{db}|{gk}")
}

fn judge(c: &Case, r: &Option<Reply>, before: &str, after: &str) -> Vec<(String, String)> {
    let mut v = Vec::new();
    let ep = c.req.path.trim_start_matches('/').to_owned();
    let r = match r {
        Some(r) => r,
        None => {
            v.push((format!("no-answer-within-2s:{ep}"), c.desc.clone()));
            return v;
        }
    };
    if r.elapsed > Duration::from_secs(2) {
        v.push((format!("slow-answer:{ep}"), format!("{}: {:?}", c.desc, r.elapsed)));
    }
    let ok_status = r.status == 200 || (400..500).contains(&r.status) || r.status == 503;
    if !ok_status {
        v.push((format!("status-{}:{ep}", r.status), format!("{} -> {} {}", c.desc, r.status, String::from_utf8_lossy(&r.body))));
    }
    let body_json: Option<Value> = serde_json::from_slice(&r.body).ok();
    if let Some(which) = c.valid {
        let fields: &[&str] = match which {
            "/register" => &["user_id", "available_slots", "subscription_start", "subscription_expiry", "subscription_signature"],
            "/add_appointment" => &["locator", "start_block", "signature", "available_slots", "subscription_expiry"],
            "/get_appointment" => &["appointment", "status"],
            "/get_subscription_info" => &["available_slots", "subscription_expiry", "locators"],
            _ => &[],
        };
        let good = r.status == 200 && (fields.is_empty() || body_json.as_ref().map_or(false, |j| fields.iter().all(|f| j.get(f).is_some())));
        if !good {
            v.push((format!("valid-request-refused:{ep}"), format!("{} -> {} {}", c.desc, r.status, String::from_utf8_lossy(&r.body))));
        }
        return v;
    }
    // (a request that declares a non-JSON content type is a header-level matter: any 4xx will do)
    let json_ct = c.req.content_type.as_deref().map_or(true, |ct| ct == "application/json");
    let must_be_json = json_ct && limit_of(&c.req.path).map_or(false, |l| c.req.method == "POST" && c.req.content_length && c.req.body.len() <= l);
    if r.status != 200 && must_be_json {
        let code = body_json.as_ref().and_then(|j| j.get("error_code")).and_then(|x| x.as_u64());
        let has_error = body_json.as_ref().and_then(|j| j.get("error")).map_or(false, |e| e.is_string());
        match code {
            Some(c_) if DOCUMENTED.contains(&c_) && has_error => {}
            Some(c_) => v.push((format!("undocumented-error-code-{c_}:{ep}"), format!("{} -> {} {}", c.desc, r.status, String::from_utf8_lossy(&r.body)))),
            None => v.push((format!("error-without-json-body:{ep}:status-{}", r.status), format!("{} -> {} {:?}", c.desc, r.status, String::from_utf8_lossy(&r.body)))),
        }
    }
    if r.status != 200 && before != after {
        v.push((format!("refused-request-changed-state:{ep}"), format!("{} -> {}", c.desc, r.status)));
    }
    v
}

struct Served {
    world: World,
    front: Front,
}

fn serve(cfg: TowerCfg, seed: &[Ev]) -> Served {
    let mut world = World::new(cfg);
    world.boot().unwrap();
    for ev in seed {
        let o = world.apply(ev);
        assert!(o.panic.is_none());
    }
    let api = world.tower.as_ref().unwrap().api.clone();
    let front = Front::start(api);
    Served { world, front }
}

pub fn c15(tier: Tier) -> i32 {
    let run = Run::new("C15", "exploration", tier);
    let add = |u, k, b| Ev::Add { user: u, disp: k, blob: b, tsd: 42 };
    let base_cfg = TowerCfg { slots: 50, duration: 400, grace: 6, txindex: false };
    // lifecycle states the valid requests (and the grid) are sent in
    let states: Vec<(&str, TowerCfg, Vec<Ev>, bool)> = vec![
        ("registered-with-appointment", base_cfg, vec![Ev::Register(1), add(1, 2, Blob::Valid)], false),
        ("unregistered", base_cfg, vec![], false),
        ("expired", TowerCfg { slots: 50, duration: 1, grace: 5, txindex: false }, vec![Ev::Register(1), add(1, 2, Blob::Valid), Ev::Advance(2)], false),
        ("no-slots-left", TowerCfg { slots: 1, duration: 400, grace: 6, txindex: false }, vec![Ev::Register(1), add(1, 2, Blob::Valid)], false),
        ("already-triggered", base_cfg, vec![Ev::Register(1), add(1, 2, Blob::Valid), add(1, 1, Blob::Valid), Ev::MineP(MineSel::Txs(vec![TxName::D(1)]))], false),
        ("bitcoind-unreachable", base_cfg, vec![Ev::Register(1), add(1, 2, Blob::Valid)], true),
        // the registering user already holds the maximum number of slots: a renewal must be refused
        // (resource exhausted) and change nothing
        ("slots-at-cap", TowerCfg { slots: u32::MAX, duration: 400, grace: 6, txindex: false }, vec![Ev::Register(1), Ev::Register(2), add(1, 2, Blob::Valid)], false),
    ];
    let mut evals = 0u64;
    let mut distinct: BTreeSet<String> = BTreeSet::new();
    let mut outcomes: BTreeSet<String> = BTreeSet::new();
    let mut samples = Vec::new();
    let mut slow_retries = 0u64;
    for (si, (sname, cfg, seed, down)) in states.iter().enumerate() {
        let served = serve(*cfg, seed);
        if *down {
            *served.world.tower.as_ref().unwrap().reachable.0.lock().unwrap() = false;
        }
        // the full grid in the first state, the valid requests + a reduced grid elsewhere
        let all = build_cases(tier);
        let cases: Vec<&Case> = if si == 0 || tier == Tier::Thorough { all.iter().collect() } else { all.iter().filter(|c| c.valid.is_some() || c.desc.contains("dropped") || c.desc.contains("odd-hex") || c.desc.contains("raw")).collect() };
        for c in cases {
            let before = state_of(&served.world);
            let mut r = send(served.front.http, &c.req, Duration::from_secs(3));
            if r.as_ref().map_or(true, |r| r.elapsed > Duration::from_secs(2)) {
                // real time: on a loaded machine a late answer proves nothing; a request the front end
                // really sits on is not answered the second time either
                let r2 = send(served.front.http, &c.req, Duration::from_secs(10));
                if r2.as_ref().map_or(false, |r2| r2.elapsed <= Duration::from_secs(2)) {
                    slow_retries += 1;
                    r = r2;
                }
            }
            let after = state_of(&served.world);
            evals += 1;
            distinct.insert(format!("{}|{}|{}", c.req.method, c.req.path, crate::tower::fnv(&c.req.body)));
            outcomes.insert(format!("{}:{}", r.as_ref().map_or(0, |r| r.status), r.as_ref().and_then(|r| serde_json::from_slice::<Value>(&r.body).ok()).and_then(|j| j.get("error_code").cloned()).unwrap_or(Value::Null)));
            // in special states "valid" requests are refused with a documented error instead
            let mut cc = Case { req: c.req.clone(), valid: c.valid, desc: format!("[{sname}] {}", c.desc) };
            if si != 0 && c.valid.is_some() && c.valid != Some("/ping") {
                let expect_ok = match (*sname, c.valid.unwrap()) {
                    ("unregistered", "/register") | ("expired", "/register") | ("no-slots-left", "/register") | ("already-triggered", "/register") => true,
                    ("no-slots-left", "/get_appointment") | ("no-slots-left", "/get_subscription_info") => true,
                    ("already-triggered", "/get_appointment") | ("already-triggered", "/get_subscription_info") => true,
                    ("slots-at-cap", "/add_appointment") | ("slots-at-cap", "/get_appointment") | ("slots-at-cap", "/get_subscription_info") => true,
                    _ => false,
                };
                if !expect_ok {
                    cc.valid = None;
                    if r.as_ref().map_or(false, |r| r.status == 200) {
                        run.violation(&format!("request-served-in-state:{sname}:{}", c.req.path), cc.desc.clone(), json!({"engine": "H15", "state": sname, "request": String::from_utf8_lossy(&c.req.body)}), 1);
                    }
                    if *down && r.as_ref().map_or(true, |r| r.status != 503) {
                        run.violation(&format!("not-503-while-unreachable:{}", c.req.path), format!("{} -> {:?}", cc.desc, r.as_ref().map(|r| r.status)), json!({"engine": "H15", "state": sname}), 1);
                    }
                }
            }
            for (sig, detail) in judge(&cc, &r, &before, &after) {
                run.violation(&sig, detail, json!({"engine": "H15", "state": sname, "method": c.req.method, "path": c.req.path, "body": String::from_utf8_lossy(&c.req.body), "content_length": c.req.content_length}), c.req.body.len());
            }
            if evals % 501 == 1 {
                samples.push(json!({"state": sname, "request": cc.desc, "status": r.as_ref().map(|r| r.status), "reply": r.as_ref().map(|r| String::from_utf8_lossy(&r.body).chars().take(120).collect::<String>())}));
            }
        }
        // the tower must still be alive
        let r = send(served.front.http, &Req { method: "GET".into(), path: "/ping".into(), body: vec![], content_length: false, content_type: None }, Duration::from_secs(3));
        if r.map_or(true, |r| r.status != 200) {
            run.violation("tower-dead-after-grid", format!("state {sname}: /ping fails after the grid"), json!({"engine": "H15", "state": sname}), 0);
        }
    }
    run.set("evaluations", json!(evals));
    run.set("late_answers_asked_again_and_answered_in_time", json!(slow_retries));
    run.set("distinct_nontrivial", json!(distinct.len()));
    run.set("distinct_reply_kinds", json!(outcomes.len()));
    run.set("exhaustive", json!(true));
    run.set("samples", json!(samples));
    run.set("rule", json!("finite grid, fully enumerated, through the real warp router + tonic server + tower on loopback: every single-field mutation (drop/null/number/array/object/empty/bool/odd hex/non-hex/one byte short/long/unicode/long values of 2-, 3- and 4-byte characters at four alignments/duplicated key; number boundaries for to_self_delay) of the valid body of each endpoint (thorough: all pairs), correctly signed blobs of 10 lengths, JSON nesting depths, raw strings, single bytes, bodies padded around each endpoint's size limit, missing content-length / content-type, 6 methods x 9 paths, and the valid requests in seven lifecycle states (registered, unregistered, expired, no slots, already triggered, bitcoind unreachable, slots at the u32 cap). Oracle: 200 + documented fields for valid requests; otherwise 4xx/503, a JSON {error, error_code} with a documented code whenever endpoint, method and size were acceptable, answer within 2 s, tower state unchanged for every non-200. distinct = distinct (method, path, body)"));
    run.assume("requests are sent one at a time (concurrency is C10/C11's subject)");
    run.finish()
}

// =============================================================================================
// C16
// =============================================================================================

#[derive(Default)]
struct Recorded {
    register: Vec<common_msgs::RegisterRequest>,
    add: Vec<common_msgs::AddAppointmentRequest>,
    get: Vec<common_msgs::GetAppointmentRequest>,
    info: Vec<common_msgs::GetSubscriptionInfoRequest>,
}

/// A public API stand-in that records what the router parsed and answers what it is told to.
#[derive(Clone)]
struct Recorder {
    seen: Arc<StdMutex<Recorded>>,
    next_register: Arc<StdMutex<Option<common_msgs::RegisterResponse>>>,
    next_add: Arc<StdMutex<Option<common_msgs::AddAppointmentResponse>>>,
    next_get: Arc<StdMutex<Option<common_msgs::GetAppointmentResponse>>>,
    next_info: Arc<StdMutex<Option<common_msgs::GetSubscriptionInfoResponse>>>,
    /// when set, every call is refused with this status (the error replies of the tower)
    next_error: Arc<StdMutex<Option<(tonic::Code, String)>>>,
}

impl Recorder {
    fn refusal(&self) -> Option<tonic::Status> {
        self.next_error.lock().unwrap().clone().map(|(c, m)| tonic::Status::new(c, m))
    }
}

#[tonic::async_trait]
impl teos::protos::public_tower_services_server::PublicTowerServices for Recorder {
    async fn register(&self, request: tonic::Request<common_msgs::RegisterRequest>) -> Result<tonic::Response<common_msgs::RegisterResponse>, tonic::Status> {
        self.seen.lock().unwrap().register.push(request.into_inner());
        if let Some(s) = self.refusal() {
            return Err(s);
        }
        self.next_register.lock().unwrap().clone().map(tonic::Response::new).ok_or_else(|| tonic::Status::not_found("no reply scripted"))
    }
    async fn add_appointment(&self, request: tonic::Request<common_msgs::AddAppointmentRequest>) -> Result<tonic::Response<common_msgs::AddAppointmentResponse>, tonic::Status> {
        self.seen.lock().unwrap().add.push(request.into_inner());
        if let Some(s) = self.refusal() {
            return Err(s);
        }
        self.next_add.lock().unwrap().clone().map(tonic::Response::new).ok_or_else(|| tonic::Status::not_found("no reply scripted"))
    }
    async fn get_appointment(&self, request: tonic::Request<common_msgs::GetAppointmentRequest>) -> Result<tonic::Response<common_msgs::GetAppointmentResponse>, tonic::Status> {
        self.seen.lock().unwrap().get.push(request.into_inner());
        if let Some(s) = self.refusal() {
            return Err(s);
        }
        self.next_get.lock().unwrap().clone().map(tonic::Response::new).ok_or_else(|| tonic::Status::not_found("no reply scripted"))
    }
    async fn get_subscription_info(&self, request: tonic::Request<common_msgs::GetSubscriptionInfoRequest>) -> Result<tonic::Response<common_msgs::GetSubscriptionInfoResponse>, tonic::Status> {
        self.seen.lock().unwrap().info.push(request.into_inner());
        if let Some(s) = self.refusal() {
            return Err(s);
        }
        self.next_info.lock().unwrap().clone().map(tonic::Response::new).ok_or_else(|| tonic::Status::not_found("no reply scripted"))
    }
}

pub fn c16(tier: Tier) -> i32 {
    use teos_common::net::http::Endpoint;
    use teos_common::net::NetAddr;
    use watchtower_plugin::net::http as client;
    let run = Run::new("C16", "exploration", tier);
    let rec = Recorder {
        seen: Arc::new(StdMutex::new(Recorded::default())),
        next_register: Arc::new(StdMutex::new(None)),
        next_add: Arc::new(StdMutex::new(None)),
        next_get: Arc::new(StdMutex::new(None)),
        next_info: Arc::new(StdMutex::new(None)),
        next_error: Arc::new(StdMutex::new(None)),
    };
    let front = Front::start(rec.clone());
    let addr = NetAddr::new(format!("http://{}", front.http));
    let tower = crate::tower::tower_keys();
    let tower_id = tower.id();
    let mut evals = 0u64;
    let mut distinct: BTreeSet<String> = BTreeSet::new();
    let u32s: Vec<u32> = vec![0, 1, 255, 256, 65535, 65536, 1 << 24, i32::MAX as u32, (i32::MAX as u32) + 1, u32::MAX];
    let locs: Vec<[u8; 16]> = vec![[0u8; 16], [0xff; 16], *b"\x00\x01\x02\x03\x04\x05\x06\x07\x08\x09\x0a\x0b\x0c\x0d\x0e\x0f", [0x7f; 16]];
    let blob_lens: Vec<usize> = if tier == Tier::Quick { vec![0, 1, 2, 3, 16, 33, 64, 500, 850] } else { (0..=64).chain([100, 255, 256, 500, 800, 850, 870]).collect() };
    let sigs: Vec<String> = vec!["a".into(), "signature with spaces".into(), "y".repeat(104), "\u{00e9}\u{1F600}".into(), "\"quoted\\\"".into()];
    let user = user_keys(1);
    let mut fail = |sig: &str, detail: String, run: &Run| {
        run.violation(sig, detail, json!({"engine": "H16"}), 1);
    };

    front.rt.block_on(async {
        // ---- client -> tower: add_appointment
        for l in locs.iter() {
            for n in blob_lens.iter() {
                for tsd in u32s.iter() {
                    for s in sigs.iter() {
                        // keep the grid finite: vary one dimension at a time around a base point
                        let base = (l == &locs[2]) as u8 + (*n == 33) as u8 + (*tsd == 256) as u8 + (s == &sigs[0]) as u8;
                        if base < 3 {
                            continue;
                        }
                        let blob: Vec<u8> = (0..*n).map(|i| (i * 7 + 3) as u8).collect();
                        let a = Appointment::new(Locator::from_slice(l).unwrap(), blob.clone(), *tsd);
                        *rec.next_add.lock().unwrap() = Some(common_msgs::AddAppointmentResponse {
                            locator: l.to_vec(),
                            start_block: *tsd,
                            signature: {
                                let r = teos_common::receipts::AppointmentReceipt::new(s.clone(), *tsd);
                                tower.sign(&r.to_vec())
                            },
                            available_slots: tsd.wrapping_add(1),
                            subscription_expiry: tsd.wrapping_add(2),
                        });
                        let before = rec.seen.lock().unwrap().add.len();
                        let r = client::send_appointment(tower_id, &addr, &None, &a, s).await;
                        evals += 1;
                        distinct.insert(format!("add|{l:?}|{n}|{tsd}|{s}"));
                        let seen = rec.seen.lock().unwrap().add.get(before).cloned();
                        let too_big = json!(common_msgs::AddAppointmentRequest { appointment: Some(a.clone().into()), signature: s.clone() }).to_string().len() > 2048;
                        match (seen, too_big) {
                            (None, true) => {}
                            (None, false) => fail("wire:request-within-limit-not-delivered:add_appointment", format!("blob {n} tsd {tsd} sig {s:?}: {r:?}"), &run),
                            (Some(q), _) => {
                                let ap = q.appointment.unwrap_or_default();
                                if ap.locator != l.to_vec() || ap.encrypted_blob != blob || ap.to_self_delay != *tsd || q.signature != *s {
                                    fail("wire:tower-parsed-different-values:add_appointment", format!("sent ({l:?},{n},{tsd},{s:?}) parsed ({:?},{},{},{:?})", ap.locator, ap.encrypted_blob.len(), ap.to_self_delay, q.signature), &run);
                                }
                                match r {
                                    Ok((resp, receipt)) => {
                                        if resp.start_block != *tsd || resp.available_slots != tsd.wrapping_add(1) || resp.subscription_expiry != tsd.wrapping_add(2) || resp.locator != l.to_vec() || receipt.start_block() != *tsd || receipt.user_signature() != s {
                                            fail("wire:client-parsed-different-values:add_appointment", format!("{resp:?}"), &run);
                                        }
                                    }
                                    Err(e) => fail("wire:client-rejects-valid-reply:add_appointment", format!("{e:?}"), &run),
                                }
                            }
                        }
                    }
                }
            }
        }
        // ---- register (request has one field; the reply carries three u32 and a signature)
        for a in u32s.iter() {
            for b in u32s.iter() {
                for c in [0u32, 77, u32::MAX] {
                    let receipt = {
                        let mut r = teos_common::receipts::RegistrationReceipt::new(user.id(), *a, *b, c);
                        r.sign(&tower.sk);
                        r
                    };
                    *rec.next_register.lock().unwrap() = Some(common_msgs::RegisterResponse {
                        user_id: user.id().to_vec(),
                        available_slots: *a,
                        subscription_start: *b,
                        subscription_expiry: c,
                        subscription_signature: receipt.signature().unwrap(),
                    });
                    let before = rec.seen.lock().unwrap().register.len();
                    let r = client::register(tower_id, user.id(), &addr, &None).await;
                    evals += 1;
                    distinct.insert(format!("register|{a}|{b}|{c}"));
                    let seen = rec.seen.lock().unwrap().register.get(before).cloned();
                    if seen.map(|q| q.user_id) != Some(user.id().to_vec()) {
                        fail("wire:tower-parsed-different-values:register", format!("user id not delivered"), &run);
                    }
                    match r {
                        Ok(got) => {
                            if got != receipt || !got.verify(&tower_id) {
                                fail("wire:client-parsed-different-values:register", format!("{got:?} vs {receipt:?}"), &run);
                            }
                        }
                        Err(e) => fail("wire:client-rejects-valid-reply:register", format!("{e:?}"), &run),
                    }
                }
            }
        }
        // ---- get_appointment: both reply shapes, every status value, txid byte order
        let statuses = [0i32, 1, 2];
        for l in locs.iter() {
            for st in statuses.iter() {
                for shape in 0..2 {
                    let dispute = txid_of(TxName::D(1));
                    let penalty = txid_of(TxName::P(1));
                    use bitcoin::hashes::Hash;
                    let data = if shape == 0 {
                        common_msgs::appointment_data::AppointmentData::Appointment(common_msgs::Appointment { locator: l.to_vec(), encrypted_blob: vec![1, 2, 3, 255], to_self_delay: 9 })
                    } else {
                        common_msgs::appointment_data::AppointmentData::Tracker(common_msgs::Tracker {
                            dispute_txid: dispute.to_raw_hash().to_byte_array().to_vec(),
                            penalty_txid: penalty.to_raw_hash().to_byte_array().to_vec(),
                            penalty_rawtx: vec![0, 1, 2, 0xfe],
                        })
                    };
                    let reply = common_msgs::GetAppointmentResponse { appointment_data: Some(common_msgs::AppointmentData { appointment_data: Some(data) }), status: *st };
                    *rec.next_get.lock().unwrap() = Some(reply.clone());
                    let sig = "sig".to_owned();
                    let before = rec.seen.lock().unwrap().get.len();
                    let resp: Result<client::ApiResponse<common_msgs::GetAppointmentResponse>, _> = client::process_post_response(
                        client::post_request(&addr, Endpoint::GetAppointment, &common_msgs::GetAppointmentRequest { locator: l.to_vec(), signature: sig.clone() }, &None).await,
                    )
                    .await;
                    evals += 1;
                    distinct.insert(format!("get|{l:?}|{st}|{shape}"));
                    let seen = rec.seen.lock().unwrap().get.get(before).cloned();
                    if seen.map(|q| (q.locator, q.signature)) != Some((l.to_vec(), sig)) {
                        fail("wire:tower-parsed-different-values:get_appointment", format!("{l:?}"), &run);
                    }
                    match resp {
                        Ok(client::ApiResponse::Response(got)) => {
                            if got != reply {
                                fail("wire:client-parsed-different-values:get_appointment", format!("{got:?} vs {reply:?}"), &run);
                            }
                            // what goes over the wire shows txids in the usual (reversed) hex form
                            if shape == 1 {
                                let j = serde_json::to_value(&reply).unwrap();
                                if j["appointment"]["dispute_txid"] != json!(dispute.to_string()) || j["appointment"]["penalty_txid"] != json!(penalty.to_string()) {
                                    fail("wire:txid-byte-order", format!("{j}"), &run);
                                }
                            }
                            let j = serde_json::to_value(&reply).unwrap();
                            let name = ["not_found", "being_watched", "dispute_responded"][*st as usize];
                            if j["status"] != json!(name) {
                                fail("wire:status-name", format!("{j}"), &run);
                            }
                        }
                        other => fail("wire:client-rejects-valid-reply:get_appointment", format!("{other:?}"), &run),
                    }
                }
            }
        }
        // ---- get_subscription_info: 0 / 1 / many locators
        for n in [0usize, 1, 2, 50] {
            for a in u32s.iter() {
                let reply = common_msgs::GetSubscriptionInfoResponse { available_slots: *a, subscription_expiry: a.wrapping_add(5), locators: (0..n).map(|i| vec![i as u8; 16]).collect() };
                *rec.next_info.lock().unwrap() = Some(reply.clone());
                let resp: Result<common_msgs::GetSubscriptionInfoResponse, _> = client::process_post_response(
                    client::post_request(&addr, Endpoint::GetSubscriptionInfo, &common_msgs::GetSubscriptionInfoRequest { signature: "s".into() }, &None).await,
                )
                .await;
                evals += 1;
                distinct.insert(format!("info|{n}|{a}"));
                match resp {
                    Ok(got) if got == reply => {}
                    other => fail("wire:client-parsed-different-values:get_subscription_info", format!("{other:?} vs {reply:?}"), &run),
                }
            }
        }
        // ---- the tower's error replies: every status the internal API answers with, through the router's mapping to an
        // HTTP status and an error object, back through the client's reply handling: the client must end up with the
        // message and the error code the tower produced (documented codes: teos_common::errors)
        use teos_common::errors as codes;
        let refusals: Vec<(tonic::Code, u8)> = vec![
            (tonic::Code::InvalidArgument, codes::WRONG_FIELD_FORMAT),
            (tonic::Code::NotFound, codes::APPOINTMENT_NOT_FOUND),
            (tonic::Code::AlreadyExists, codes::APPOINTMENT_ALREADY_TRIGGERED),
            (tonic::Code::ResourceExhausted, codes::REGISTRATION_RESOURCE_EXHAUSTED),
            (tonic::Code::Unauthenticated, codes::INVALID_SIGNATURE_OR_SUBSCRIPTION_ERROR),
            (tonic::Code::Unavailable, codes::SERVICE_UNAVAILABLE),
            (tonic::Code::Internal, codes::UNEXPECTED_ERROR),
            (tonic::Code::Unknown, codes::UNEXPECTED_ERROR),
        ];
        let messages: Vec<String> = vec!["".into(), "Service currently unavailable".into(), "locator not found \u{00e9} \"quoted\"".into(), "x".repeat(300)];
        for (code, want_code) in refusals.iter() {
            for m in messages.iter() {
                *rec.next_error.lock().unwrap() = Some((*code, m.clone()));
                let a = Appointment::new(Locator::from_slice(&locs[2]).unwrap(), vec![1, 2, 3], 42);
                let mut got: Vec<(&str, Result<(String, u8), String>)> = Vec::new();
                got.push((
                    "add_appointment",
                    match client::send_appointment(tower_id, &addr, &None, &a, "sig").await {
                        Err(client::AddAppointmentError::ApiError(e)) => Ok((e.error, e.error_code)),
                        other => Err(format!("{other:?}")),
                    },
                ));
                let r: Result<client::ApiResponse<common_msgs::GetAppointmentResponse>, _> =
                    client::process_post_response(client::post_request(&addr, Endpoint::GetAppointment, &common_msgs::GetAppointmentRequest { locator: locs[2].to_vec(), signature: "sig".into() }, &None).await).await;
                got.push((
                    "get_appointment",
                    match r {
                        Ok(client::ApiResponse::Error(e)) => Ok((e.error, e.error_code)),
                        other => Err(format!("{other:?}")),
                    },
                ));
                let r: Result<client::ApiResponse<common_msgs::GetSubscriptionInfoResponse>, _> =
                    client::process_post_response(client::post_request(&addr, Endpoint::GetSubscriptionInfo, &common_msgs::GetSubscriptionInfoRequest { signature: "s".into() }, &None).await).await;
                got.push((
                    "get_subscription_info",
                    match r {
                        Ok(client::ApiResponse::Error(e)) => Ok((e.error, e.error_code)),
                        other => Err(format!("{other:?}")),
                    },
                ));
                for (ep, g) in got {
                    evals += 1;
                    distinct.insert(format!("refusal|{ep}|{code:?}|{}", m.len()));
                    match g {
                        Ok((text, c)) if text == *m && c == *want_code => {}
                        Ok((text, c)) => fail(&format!("wire:client-parsed-different-values:error-reply:{ep}"), format!("tower answered {code:?} ({want_code}) {m:?}; the client has ({c}) {text:?}"), &run),
                        Err(e) => fail(&format!("wire:client-rejects-error-reply:{ep}"), format!("tower answered {code:?} ({want_code}) {m:?}; the client has {e}"), &run),
                    }
                }
            }
        }
        *rec.next_error.lock().unwrap() = None;
    });
    // ---- signed byte strings determine their fields (pairwise over the grid)
    let mut signed: Vec<(String, Vec<u8>)> = Vec::new();
    for l in locs.iter() {
        for n in [0usize, 1, 2, 3, 4, 5, 16, 20] {
            for tsd in u32s.iter() {
                for fill in [0u8, 1, 0xff] {
                    if n == 0 && fill != 0 {
                        continue;
                    }
                    let a = Appointment::new(Locator::from_slice(l).unwrap(), vec![fill; n], *tsd);
                    signed.push((format!("appointment|{l:?}|{n}|{fill}|{tsd}"), a.to_vec()));
                }
            }
        }
    }
    // the message signed for get_appointment is "get appointment " followed by the 32 hex digits of the locator (what both
    // the tower and the client build from the locator's textual form), and it determines the locator
    {
        let mut tricky: Vec<[u8; 16]> = locs.clone();
        let mut a = [0xabu8; 16];
        a[0] = 0x01;
        a[1] = 0x11;
        tricky.push(a);
        a[0] = 0x11;
        a[1] = 0x01;
        tricky.push(a);
        a[0] = 0x10;
        a[1] = 0x00;
        tricky.push(a);
        a[0] = 0x01;
        a[1] = 0x00;
        tricky.push(a);
        for l in tricky.iter() {
            let loc = Locator::from_slice(l).unwrap();
            let textual = format!("get appointment {loc}");
            evals += 1;
            if textual != format!("get appointment {}", hex::encode(l)) {
                fail("signed-message-differs-from-the-documented-form:get_appointment", format!("locator {} is rendered as {textual:?}", hex::encode(l)), &run);
            }
            signed.push((format!("get_appointment_message|{}", hex::encode(l)), textual.into_bytes()));
        }
    }
    for s in ["", "a", "ab", "\u{0}", "a\u{0}", "\u{0}\u{0}\u{0}\u{0}", "aaaa"] {
        for b in u32s.iter() {
            let r = teos_common::receipts::AppointmentReceipt::new(s.to_owned(), *b);
            signed.push((format!("appointment_receipt|{s:?}|{b}"), r.to_vec()));
        }
    }
    for a in u32s.iter() {
        for b in u32s.iter() {
            for c in u32s.iter() {
                for u in 1..=2u8 {
                    let r = teos_common::receipts::RegistrationReceipt::new(user_keys(u).id(), *a, *b, *c);
                    signed.push((format!("registration_receipt|{u}|{a}|{b}|{c}"), r.to_vec()));
                }
            }
        }
    }
    let mut by_bytes: std::collections::HashMap<(String, Vec<u8>), String> = std::collections::HashMap::new();
    for (desc, bytes) in signed.iter() {
        let kind = desc.split('|').next().unwrap().to_owned();
        evals += 1;
        if let Some(prev) = by_bytes.insert((kind.clone(), bytes.clone()), desc.clone()) {
            if prev != *desc {
                fail(&format!("signed-bytes-not-injective:{kind}"), format!("{prev} and {desc} serialise to the same bytes"), &run);
            }
        }
    }
    // ---- serialise -> parse = identity for every message type (JSON, as on the wire)
    macro_rules! roundtrip {
        ($v:expr, $t:ty, $name:expr) => {{
            let txt = serde_json::to_string(&$v).unwrap();
            let back: Result<$t, _> = serde_json::from_str(&txt);
            evals += 1;
            if back.as_ref().ok() != Some(&$v) {
                fail(&format!("roundtrip:{}", $name), format!("{txt} -> {back:?}"), &run);
            }
        }};
    }
    for n in blob_lens.iter() {
        for tsd in u32s.iter() {
            roundtrip!(common_msgs::AddAppointmentRequest { appointment: Some(common_msgs::Appointment { locator: vec![7; 16], encrypted_blob: vec![9; *n], to_self_delay: *tsd }), signature: "s".repeat(*n % 5 + 1) }, common_msgs::AddAppointmentRequest, "AddAppointmentRequest");
            roundtrip!(common_msgs::AddAppointmentResponse { locator: vec![7; 16], start_block: *tsd, signature: "x".into(), available_slots: *tsd, subscription_expiry: *tsd }, common_msgs::AddAppointmentResponse, "AddAppointmentResponse");
            roundtrip!(common_msgs::RegisterResponse { user_id: user.id().to_vec(), available_slots: *tsd, subscription_start: *tsd, subscription_expiry: *tsd, subscription_signature: "z".into() }, common_msgs::RegisterResponse, "RegisterResponse");
            roundtrip!(common_msgs::GetSubscriptionInfoResponse { available_slots: *tsd, subscription_expiry: *tsd, locators: vec![vec![1; 16]; *n % 4] }, common_msgs::GetSubscriptionInfoResponse, "GetSubscriptionInfoResponse");
        }
    }
    roundtrip!(common_msgs::RegisterRequest { user_id: user.id().to_vec() }, common_msgs::RegisterRequest, "RegisterRequest");
    roundtrip!(common_msgs::GetAppointmentRequest { locator: vec![3; 16], signature: "q".into() }, common_msgs::GetAppointmentRequest, "GetAppointmentRequest");
    roundtrip!(common_msgs::GetSubscriptionInfoRequest { signature: "q".into() }, common_msgs::GetSubscriptionInfoRequest, "GetSubscriptionInfoRequest");

    // ---- the replies the *real tower* produces for an appointment it watches and for one it has responded to (penalties
    // with witness data, as every real penalty has): parsed with the client's code, compared with what the tower holds
    {
        use bitcoin::hashes::Hash;
        let add = |u, k, b| Ev::Add { user: u, disp: k, blob: b, tsd: 42 };
        let served = serve(
            TowerCfg { slots: 50, duration: 400, grace: 6, txindex: false },
            &[Ev::Register(1), add(1, 1, Blob::Valid), add(1, 2, Blob::Alt), Ev::MineP(MineSel::Txs(vec![TxName::D(1)])), Ev::MineP(MineSel::Mempool)],
        );
        let addr = NetAddr::new(format!("http://{}", served.front.http));
        for (k, responded) in [(1u8, true), (2u8, false)] {
            let dispute = crate::sim::build_tx(TxName::D(k));
            let loc = teos_common::appointment::Locator::new(dispute.compute_txid());
            let sig = user.sign(format!("get appointment {}", hex::encode(loc.to_vec())).as_bytes());
            let resp: Result<client::ApiResponse<common_msgs::GetAppointmentResponse>, _> = served.front.rt.block_on(async {
                client::process_post_response(client::post_request(&addr, Endpoint::GetAppointment, &common_msgs::GetAppointmentRequest { locator: loc.to_vec(), signature: sig.clone() }, &None).await).await
            });
            evals += 1;
            distinct.insert(format!("real-tower-get|{k}"));
            match resp {
                Ok(client::ApiResponse::Response(got)) => match got.appointment_data.and_then(|d| d.appointment_data) {
                    Some(common_msgs::appointment_data::AppointmentData::Tracker(t)) if responded => {
                        let penalty = crate::sim::build_tx(TxName::P(k));
                        let raw_ok = bitcoin::consensus::serialize(&penalty) == t.penalty_rawtx;
                        let from_raw: Option<bitcoin::Transaction> = bitcoin::consensus::deserialize(&t.penalty_rawtx).ok();
                        if t.dispute_txid != dispute.compute_txid().to_raw_hash().to_byte_array().to_vec()
                            || t.penalty_txid != penalty.compute_txid().to_raw_hash().to_byte_array().to_vec()
                            || !raw_ok
                            || from_raw.map(|p| p.compute_txid().to_raw_hash().to_byte_array().to_vec()) != Some(t.penalty_txid.clone())
                        {
                            fail(
                                "wire:client-parsed-different-values:get_appointment:real-tower:responded",
                                format!("dispute_txid {} penalty_txid {} (the tower holds dispute {} penalty {}; raw penalty as held: {raw_ok})", hex::encode(&t.dispute_txid), hex::encode(&t.penalty_txid), dispute.compute_txid(), penalty.compute_txid()),
                                &run,
                            );
                        }
                        if got.status != 2 {
                            fail("wire:status-name:real-tower", format!("responded appointment reported with status {}", got.status), &run);
                        }
                    }
                    Some(common_msgs::appointment_data::AppointmentData::Appointment(a)) if !responded => {
                        if a.locator != loc.to_vec() || a.encrypted_blob != crate::world::make_blob(k, Blob::Alt) || a.to_self_delay != 42 || got.status != 1 {
                            fail("wire:client-parsed-different-values:get_appointment:real-tower:watched", format!("{a:?} status {}", got.status), &run);
                        }
                    }
                    other => fail("wire:client-parsed-different-values:get_appointment:real-tower:shape", format!("appointment {k} (responded: {responded}): {other:?}"), &run),
                },
                other => fail("wire:client-rejects-valid-reply:get_appointment:real-tower", format!("{other:?}"), &run),
            }
        }
    }

    run.set("evaluations", json!(evals));
    run.set("distinct_nontrivial", json!(distinct.len() + by_bytes.len()));
    run.set("exhaustive", json!(true));
    run.set("samples", json!([
        {"signed_bytes_example": signed[5].0, "hex": hex::encode(&signed[5].1)},
        {"wire_example": serde_json::to_value(common_msgs::AddAppointmentRequest { appointment: Some(common_msgs::Appointment { locator: vec![7; 16], encrypted_blob: vec![9; 3], to_self_delay: 5 }), signature: "sig".into() }).unwrap()},
    ]));
    run.set("rule", json!("finite grid, fully enumerated: the client's real send_appointment / register / post_request / process_post_response against the real warp router in front of a recording gRPC service; what the tower parsed is compared field by field with what the client sent, and what the client parsed with what the tower emitted; locators x blob lengths x u32 boundary values x signature strings (one dimension varied at a time around a base point), both get_appointment reply shapes x every status, 0/1/many locators; the real tower's replies for a watched and for a responded appointment (penalty with witness data) parsed by the client and compared with what the tower holds (ids, raw transaction, id of the raw transaction); JSON round trip of every message type; pairwise injectivity of the signed byte strings of appointments and both receipts over the grid. distinct = distinct messages + distinct signed byte strings"));
    run.finish()
}
