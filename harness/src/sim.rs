//! Environment model (trusted): a block tree with valid regtest proof of work (`SimChain`), the
//! bitcoind node as the tower sees it (mempool + verdicts as a function of chain state), served to
//! the tower through `lightning_block_sync::BlockSource` and a `jsonrpc::Transport`.

use std::collections::{BTreeMap, HashMap, HashSet};
use std::sync::{Arc, Mutex, OnceLock};

use bitcoin::absolute::LockTime;
use bitcoin::block::{Header, Version as BlockVersion};
use bitcoin::hashes::{sha256d, Hash};
use bitcoin::pow::{CompactTarget, Work};
use bitcoin::transaction::Version;
use bitcoin::{
    Amount, Block, BlockHash, OutPoint, ScriptBuf, Sequence, Transaction, TxIn, TxMerkleNode,
    TxOut, Txid, Witness,
};
use bitcoincore_rpc::jsonrpc;
use lightning_block_sync::{
    AsyncBlockSourceResult, BlockData, BlockHeaderData, BlockSource, BlockSourceError,
};
use serde_json::json;

pub const BASE_HEIGHT: u32 = 130;

/// Names of the transactions of the universe.
#[derive(Clone, Copy, Debug, PartialEq, Eq, Hash, PartialOrd, Ord, serde::Serialize, serde::Deserialize)]
pub enum TxName {
    /// Dispute (revoked commitment) k, spends funding coin k.
    D(u8),
    /// A conflicting spend of funding coin k (makes D(k) invalid once confirmed).
    DAlt(u8),
    /// Penalty for D(k).
    P(u8),
    /// Another valid spend of D(k):0 (conflicts with P(k)).
    PAlt(u8),
    /// Penalty for D(k) with a 2100 byte output script (blob needs two slots).
    PLarge(u8),
    /// "Penalty" spending a coin that does not exist (the node refuses it).
    PBad(u8),
}

fn tagged_txid(tag: &str, k: u8) -> Txid {
    Txid::from_raw_hash(sha256d::Hash::hash(format!("{tag}{k}").as_bytes()))
}

pub fn funding_outpoint(k: u8) -> OutPoint {
    OutPoint {
        txid: tagged_txid("verif-funding-", k),
        vout: 0,
    }
}

/// A dispute (revoked commitment): output 0 is what the penalty sweeps, output 1 (the counterparty's
/// balance) is never spent, like in a real commitment transaction.
fn dispute_tx(input: OutPoint, value: u64) -> Transaction {
    let mut tx = simple_tx(input, value, vec![0x51]);
    tx.output.push(TxOut {
        value: Amount::from_sat(10_000),
        script_pubkey: ScriptBuf::from_bytes(vec![0x52]),
    });
    tx
}

fn simple_tx(input: OutPoint, value: u64, script: Vec<u8>) -> Transaction {
    Transaction {
        version: Version::TWO,
        lock_time: LockTime::ZERO,
        input: vec![TxIn {
            previous_output: input,
            script_sig: ScriptBuf::new(),
            sequence: Sequence::MAX,
            // every real penalty spends a segwit output: with witness data the witness id differs from the transaction id
            witness: Witness::from_slice(&[vec![0x30u8; 71], vec![0x02u8; 33]]),
        }],
        output: vec![TxOut {
            value: Amount::from_sat(value),
            script_pubkey: ScriptBuf::from_bytes(script),
        }],
    }
}

pub fn build_tx(name: TxName) -> Transaction {
    match name {
        TxName::D(k) => dispute_tx(funding_outpoint(k), 50_000),
        TxName::DAlt(k) => dispute_tx(funding_outpoint(k), 49_000),
        TxName::P(k) => simple_tx(
            OutPoint {
                txid: build_tx(TxName::D(k)).compute_txid(),
                vout: 0,
            },
            40_000,
            vec![0x51],
        ),
        TxName::PAlt(k) => simple_tx(
            OutPoint {
                txid: build_tx(TxName::D(k)).compute_txid(),
                vout: 0,
            },
            39_000,
            vec![0x51],
        ),
        TxName::PLarge(k) => simple_tx(
            OutPoint {
                txid: build_tx(TxName::D(k)).compute_txid(),
                vout: 0,
            },
            38_000,
            vec![0x6a; 2100],
        ),
        TxName::PBad(k) => simple_tx(
            OutPoint {
                txid: tagged_txid("verif-void-", k),
                vout: 0,
            },
            37_000,
            vec![0x51],
        ),
    }
}

pub fn txid_of(name: TxName) -> Txid {
    build_tx(name).compute_txid()
}

/// Reverse lookup used for readable logs.
pub fn name_of(txid: &Txid) -> Option<TxName> {
    static MAP: OnceLock<HashMap<Txid, TxName>> = OnceLock::new();
    MAP.get_or_init(|| {
        let mut m = HashMap::new();
        for k in 1..=3u8 {
            for n in [
                TxName::D(k),
                TxName::DAlt(k),
                TxName::P(k),
                TxName::PAlt(k),
                TxName::PLarge(k),
                TxName::PBad(k),
            ] {
                m.insert(txid_of(n), n);
            }
        }
        m
    })
    .get(txid)
    .copied()
}

pub fn tx_label(txid: &Txid) -> String {
    match name_of(txid) {
        Some(n) => format!("{n:?}"),
        None => txid.to_string()[..8].to_owned(),
    }
}

#[derive(Clone)]
pub struct BlockEntry {
    pub block: Block,
    pub hash: BlockHash,
    pub height: u32,
    pub chainwork: Work,
}

fn make_block(prev: Option<&BlockEntry>, txs: Vec<Transaction>, tag: u32) -> BlockEntry {
    let height = prev.map_or(0, |p| p.height + 1);
    let mut script_sig = Vec::new();
    script_sig.push(4u8);
    script_sig.extend(height.to_le_bytes());
    script_sig.push(4u8);
    script_sig.extend(tag.to_le_bytes());
    let coinbase = Transaction {
        version: Version::ONE,
        lock_time: LockTime::ZERO,
        input: vec![TxIn {
            previous_output: OutPoint::null(),
            script_sig: ScriptBuf::from_bytes(script_sig),
            sequence: Sequence::MAX,
            witness: Witness::new(),
        }],
        output: vec![TxOut {
            value: Amount::from_sat(50 * 100_000_000),
            script_pubkey: ScriptBuf::from_bytes(vec![0x51]),
        }],
    };
    let with_witness = txs.iter().any(|t| t.input.iter().any(|i| !i.witness.is_empty()));
    let mut txdata = vec![coinbase];
    txdata.extend(txs);
    if with_witness {
        // BIP 141: the coinbase commits to the witness ids of the block's transactions
        txdata[0].input[0].witness = Witness::from_slice(&[vec![0u8; 32]]);
        let probe = Block {
            header: Header {
                version: BlockVersion::from_consensus(0x2000_0000),
                prev_blockhash: BlockHash::all_zeros(),
                merkle_root: TxMerkleNode::all_zeros(),
                time: 0,
                bits: CompactTarget::from_consensus(0x207f_ffff),
                nonce: 0,
            },
            txdata: txdata.clone(),
        };
        let root = probe.witness_root().unwrap();
        let commitment = Block::compute_witness_commitment(&root, &[0u8; 32]);
        let mut script = vec![0x6a, 0x24, 0xaa, 0x21, 0xa9, 0xed];
        script.extend_from_slice(commitment.as_byte_array());
        txdata[0].output.push(TxOut { value: Amount::ZERO, script_pubkey: ScriptBuf::from_bytes(script) });
    }
    let mut block = Block {
        header: Header {
            version: BlockVersion::from_consensus(0x2000_0000),
            prev_blockhash: prev.map_or(BlockHash::all_zeros(), |p| p.hash),
            merkle_root: TxMerkleNode::all_zeros(),
            time: prev.map_or(1_600_000_000, |p| p.block.header.time + 1),
            bits: CompactTarget::from_consensus(0x207f_ffff),
            nonce: 0,
        },
        txdata,
    };
    block.header.merkle_root = block.compute_merkle_root().unwrap();
    let target = block.header.target();
    while block.header.validate_pow(target).is_err() {
        block.header.nonce += 1;
    }
    let work = block.header.work();
    BlockEntry {
        hash: block.block_hash(),
        height,
        chainwork: prev.map_or(work, |p| p.chainwork + work),
        block,
    }
}

pub fn make_block_pub(prev: Option<&BlockEntry>, txs: Vec<Transaction>, tag: u32) -> BlockEntry {
    make_block(prev, txs, tag)
}

fn base_chain() -> &'static Vec<BlockEntry> {
    static BASE: OnceLock<Vec<BlockEntry>> = OnceLock::new();
    BASE.get_or_init(|| {
        let mut v: Vec<BlockEntry> = Vec::new();
        for _ in 0..=BASE_HEIGHT {
            let e = make_block(v.last(), vec![], 0);
            v.push(e);
        }
        v
    })
}

/// One RPC the tower issued, with the verdict the node gave.
#[derive(Clone, Debug, PartialEq, Eq)]
pub struct RpcRecord {
    pub method: String,
    pub txid: Option<Txid>,
    /// "ok", "ok:mempool", "ok:confirmed", "err:<code>", "transport"
    pub verdict: String,
    /// Height of the node's active tip when the call was made.
    pub node_height: u32,
}

/// How the replacement branch of a reorg is filled.
#[derive(Clone, Copy, Debug, PartialEq, Eq, Hash, PartialOrd, Ord, serde::Serialize, serde::Deserialize)]
pub enum Replacement {
    /// Transactions of the i-th disconnected block are mined in the i-th replacement block.
    Same,
    /// ... in the (i+1)-th replacement block.
    Delay,
    /// Replacement blocks are empty; disconnected transactions go back to the mempool.
    Unconfirm,
    /// Like `Same`, but every P(k) is replaced by PAlt(k) (the penalty becomes invalid).
    ConflictPenalty,
    /// Like `Same`, but every D(k) is replaced by DAlt(k) (dispute and penalty become invalid).
    ConflictDispute,
    /// Disputes as in `Same`; P(1) is replaced by PAlt(1); every other penalty stays unconfirmed.
    ConflictPenalty1,
}

pub struct SimChain {
    blocks: HashMap<BlockHash, BlockEntry>,
    pub tip: BlockHash,
    /// Active chain, index = height.
    active: Vec<BlockHash>,
    pub mempool: BTreeMap<Txid, Transaction>,
    /// txid -> (block hash, height) for non-coinbase transactions on the active chain.
    confirmed: HashMap<Txid, (BlockHash, u32)>,
    /// number of outputs of each confirmed transaction
    n_outputs: HashMap<Txid, u32>,
    /// Outpoints spent by confirmed transactions of the active chain.
    spent: HashMap<OutPoint, Txid>,
    pub txindex: bool,
    tag_counter: u32,
    // ---- fault injection / logging -------------------------------------------------------
    pub rpc_log: Vec<RpcRecord>,
    pub rpc_count: u64,
    /// RPC calls with index >= this fail with a transport error (until cleared).
    pub rpc_down_from: Option<u64>,
    /// When set, the outage ends by itself after this many (further) failed RPCs.
    pub rpc_down_failures_left: Option<u64>,
    /// The first call of the outage is still executed by the node, but the connection is lost while its reply is on
    /// the way: the caller gets a reply cut in the middle (a parse error, not a transport error).
    pub rpc_cut_first: bool,
    /// The node is not away but warming up (it has just been restarted): the calls of the "outage" are answered with
    /// the JSON-RPC error -28 instead of failing at the transport level.
    pub rpc_down_is_warmup: bool,
    /// (n, f): once an outage has been seen and is over, the n-th successful RPC from then on is
    /// the start of another outage of f failed calls.
    pub second_outage: Option<(u64, u64)>,
    /// (absolute RPC index, code): that call is answered with this JSON-RPC error whatever the state is
    /// (code 0: a successful reply whose result is not of the expected type).
    pub rpc_override: Option<(u64, i32)>,
    /// every call of that method is answered with a complete, well-formed reply whose result is not of the expected shape
    /// (a node newer than the RPC client's structs)
    pub rpc_wrong_shape_for: Option<String>,
    pub first_outage_seen: bool,
    pub src_count: u64,
    /// Block source calls with index in [a, b) fail with a transient error.
    pub src_fail: Option<(u64, u64)>,
    /// While true every block source call fails (bitcoind down).
    pub src_down: bool,
    /// Marks RPCs as crash points for the crash enumeration.
    pub rpc_crash_points: bool,
    /// When set, every sendrawtransaction is checked against the tower's tables at that very moment:
    /// the transaction must belong to an appointment or tracker whose owner is still registered.
    pub send_monitor_db: Option<std::path::PathBuf>,
    pub send_monitor_violations: Vec<String>,
    /// The block source is down as soon as (and as long as) the RPC outage has begun.
    pub src_down_with_rpc: bool,
    pub outage_started: bool,
    /// Guard against unbounded retry recursion: panic once this many RPCs have been made.
    pub rpc_flood_limit: Option<u64>,
    pub rpc_flooded: bool,
}

impl SimChain {
    pub fn new(txindex: bool) -> Self {
        let base = base_chain();
        let mut blocks = HashMap::new();
        let mut active = Vec::new();
        for e in base.iter() {
            blocks.insert(e.hash, e.clone());
            active.push(e.hash);
        }
        SimChain {
            blocks,
            tip: base.last().unwrap().hash,
            active,
            mempool: BTreeMap::new(),
            confirmed: HashMap::new(),
            n_outputs: HashMap::new(),
            spent: HashMap::new(),
            txindex,
            tag_counter: 0,
            rpc_log: Vec::new(),
            rpc_count: 0,
            rpc_down_from: None,
            rpc_down_failures_left: None,
            rpc_cut_first: false,
            rpc_down_is_warmup: false,
            second_outage: None,
            rpc_override: None,
            rpc_wrong_shape_for: None,
            first_outage_seen: false,
            src_count: 0,
            src_fail: None,
            src_down: false,
            rpc_crash_points: false,
            send_monitor_db: None,
            send_monitor_violations: Vec::new(),
            src_down_with_rpc: false,
            outage_started: false,
            rpc_flood_limit: None,
            rpc_flooded: false,
        }
    }

    pub fn height(&self) -> u32 {
        self.blocks[&self.tip].height
    }

    pub fn entry(&self, h: &BlockHash) -> Option<&BlockEntry> {
        self.blocks.get(h)
    }

    pub fn active_hash(&self, height: u32) -> Option<BlockHash> {
        self.active.get(height as usize).copied()
    }

    pub fn is_active(&self, h: &BlockHash) -> bool {
        self.blocks
            .get(h)
            .map_or(false, |e| self.active.get(e.height as usize) == Some(h))
    }

    /// (block hash, height) of the active-chain block containing `txid`.
    pub fn confirmation(&self, txid: &Txid) -> Option<(BlockHash, u32)> {
        self.confirmed.get(txid).copied()
    }

    pub fn in_mempool(&self, txid: &Txid) -> bool {
        self.mempool.contains_key(txid)
    }

    /// Height at which `txid` is confirmed on the branch ending at `tip` (not necessarily active).
    pub fn confirmation_on_branch(&self, txid: &Txid, tip: &BlockHash) -> Option<(BlockHash, u32)> {
        let mut cur = *tip;
        loop {
            let e = self.blocks.get(&cur)?;
            if e.height <= BASE_HEIGHT {
                return None;
            }
            if e.block.txdata[1..].iter().any(|t| t.compute_txid() == *txid) {
                return Some((cur, e.height));
            }
            cur = e.block.header.prev_blockhash;
        }
    }

    /// Non-coinbase transactions of the active block at `height`.
    pub fn block_txs(&self, height: u32) -> Vec<Transaction> {
        self.active_hash(height).map_or(vec![], |h| {
            self.blocks[&h].block.txdata[1..].to_vec()
        })
    }

    fn reindex(&mut self) {
        // Rebuild `active`, `confirmed` and `spent` from the tip.
        let mut chain = Vec::new();
        let mut cur = self.tip;
        loop {
            let e = &self.blocks[&cur];
            if e.height <= BASE_HEIGHT {
                break;
            }
            chain.push(cur);
            cur = e.block.header.prev_blockhash;
        }
        self.active.truncate(BASE_HEIGHT as usize + 1);
        self.confirmed.clear();
        self.n_outputs.clear();
        self.spent.clear();
        for h in chain.into_iter().rev() {
            let e = &self.blocks[&h];
            for tx in e.block.txdata[1..].iter() {
                let txid = tx.compute_txid();
                self.confirmed.insert(txid, (h, e.height));
                self.n_outputs.insert(txid, tx.output.len() as u32);
                for i in tx.input.iter() {
                    self.spent.insert(i.previous_output, txid);
                }
            }
            self.active.push(h);
        }
    }

    fn coin_exists(&self, o: &OutPoint, allow_mempool_parent: bool) -> bool {
        let is_funding = (1..=3u8).any(|k| funding_outpoint(k) == *o);
        let from_confirmed = self.n_outputs.get(&o.txid).map_or(false, |n| o.vout < *n);
        let from_mempool = allow_mempool_parent
            && self.mempool.get(&o.txid).map_or(false, |t| (o.vout as usize) < t.output.len());
        (is_funding || from_confirmed || from_mempool) && !self.spent.contains_key(o)
    }

    /// The node's verdict on `sendrawtransaction(tx)`; applies it when accepted.
    pub fn submit(&mut self, tx: &Transaction) -> Result<Txid, (i32, &'static str)> {
        let txid = tx.compute_txid();
        // Any unspent output of this very transaction in the UTXO set => already in chain.
        if self.confirmed.contains_key(&txid)
            && (0..tx.output.len() as u32).any(|vout| !self.spent.contains_key(&OutPoint { txid, vout }))
        {
            return Err((-27, "Transaction already in block chain"));
        }
        if self.mempool.contains_key(&txid) {
            return Ok(txid);
        }
        for i in tx.input.iter() {
            if !self.coin_exists(&i.previous_output, true) {
                return Err((-25, "bad-txns-inputs-missingorspent"));
            }
        }
        for other in self.mempool.values() {
            for oi in other.input.iter() {
                if tx.input.iter().any(|i| i.previous_output == oi.previous_output) {
                    return Err((-26, "txn-mempool-conflict"));
                }
            }
        }
        self.mempool.insert(txid, tx.clone());
        Ok(txid)
    }

    /// Would `submit` accept this transaction right now (used to enable `External`)?
    pub fn would_accept(&self, tx: &Transaction) -> bool {
        let txid = tx.compute_txid();
        if self.confirmed.contains_key(&txid) || self.mempool.contains_key(&txid) {
            return false;
        }
        tx.input.iter().all(|i| self.coin_exists(&i.previous_output, true))
            && !self.mempool.values().any(|o| {
                o.input
                    .iter()
                    .any(|oi| tx.input.iter().any(|i| i.previous_output == oi.previous_output))
            })
    }

    fn evict_invalid_from_mempool(&mut self) {
        loop {
            let bad: Vec<Txid> = self
                .mempool
                .iter()
                .filter(|(txid, tx)| {
                    self.confirmed.contains_key(*txid)
                        || !tx.input.iter().all(|i| self.coin_exists(&i.previous_output, true))
                })
                .map(|(t, _)| *t)
                .collect();
            if bad.is_empty() {
                break;
            }
            for t in bad {
                self.mempool.remove(&t);
            }
        }
    }

    /// Mines one block on the active tip with those of `txs` that are valid at that point (in the
    /// given order). Returns the new block hash and the txids actually included.
    pub fn mine(&mut self, txs: Vec<Transaction>) -> (BlockHash, Vec<Txid>) {
        let mut included: Vec<Transaction> = Vec::new();
        let mut incl_ids: HashSet<Txid> = HashSet::new();
        let mut spent_here: HashSet<OutPoint> = HashSet::new();
        for tx in txs {
            let txid = tx.compute_txid();
            if self.confirmed.contains_key(&txid) || incl_ids.contains(&txid) {
                continue;
            }
            let ok = tx.input.iter().all(|i| {
                let o = &i.previous_output;
                !spent_here.contains(o)
                    && (self.coin_exists(o, false)
                        || included
                            .iter()
                            .any(|p| p.compute_txid() == o.txid && (o.vout as usize) < p.output.len()))
            });
            if ok {
                for i in tx.input.iter() {
                    spent_here.insert(i.previous_output);
                }
                incl_ids.insert(txid);
                included.push(tx);
            }
        }
        let ids: Vec<Txid> = included.iter().map(|t| t.compute_txid()).collect();
        self.tag_counter += 1;
        let e = make_block(Some(&self.blocks[&self.tip]), included, self.tag_counter);
        let h = e.hash;
        self.blocks.insert(h, e);
        self.tip = h;
        self.reindex();
        self.evict_invalid_from_mempool();
        (h, ids)
    }

    pub fn mine_mempool(&mut self) -> (BlockHash, Vec<Txid>) {
        // Parents first: a transaction spending a mempool parent comes after it.
        let mut txs: Vec<Transaction> = self.mempool.values().cloned().collect();
        txs.sort_by_key(|t| {
            t.input
                .iter()
                .any(|i| self.mempool.contains_key(&i.previous_output.txid)) as u8
        });
        self.mine(txs)
    }

    /// Replaces the last `depth` blocks of the active chain by `depth + 1` new ones.
    pub fn reorg(&mut self, depth: u32, how: Replacement) {
        let top = self.height();
        assert!(depth >= 1 && top - depth >= BASE_HEIGHT);
        let mut old: Vec<Vec<Transaction>> = Vec::new();
        for h in (top - depth + 1)..=top {
            old.push(self.block_txs(h));
        }
        // Disconnect.
        self.tip = self.active[(top - depth) as usize];
        self.reindex();
        // Disconnected transactions return to the mempool where still valid.
        for blk in old.iter() {
            for tx in blk.iter() {
                let _ = self.submit(tx);
            }
        }
        let subst = |tx: &Transaction| -> Transaction {
            match (how, name_of(&tx.compute_txid())) {
                (Replacement::ConflictPenalty, Some(TxName::P(k)))
                | (Replacement::ConflictPenalty, Some(TxName::PLarge(k))) => build_tx(TxName::PAlt(k)),
                (Replacement::ConflictDispute, Some(TxName::D(k))) => build_tx(TxName::DAlt(k)),
                (Replacement::ConflictPenalty1, Some(TxName::P(1))) | (Replacement::ConflictPenalty1, Some(TxName::PLarge(1))) => build_tx(TxName::PAlt(1)),
                _ => tx.clone(),
            }
        };
        let keep = |tx: &Transaction| -> bool {
            how != Replacement::ConflictPenalty1 || !matches!(name_of(&tx.compute_txid()), Some(TxName::P(k)) | Some(TxName::PLarge(k)) if k != 1)
        };
        let mut plan: Vec<Vec<Transaction>> = vec![Vec::new(); depth as usize + 1];
        match how {
            Replacement::Unconfirm => {}
            Replacement::Delay => {
                for (i, blk) in old.iter().enumerate() {
                    plan[i + 1] = blk.clone();
                }
            }
            _ => {
                for (i, blk) in old.iter().enumerate() {
                    plan[i] = blk.iter().filter(|t| keep(t)).map(subst).collect();
                }
            }
        }
        for txs in plan {
            if how == Replacement::ConflictPenalty || how == Replacement::ConflictDispute || how == Replacement::ConflictPenalty1 {
                // The conflicting transaction wins: drop the originals it conflicts with first.
                for tx in txs.iter() {
                    let ins: Vec<OutPoint> = tx.input.iter().map(|i| i.previous_output).collect();
                    let txid = tx.compute_txid();
                    self.mempool.retain(|id, m| {
                        *id == txid || !m.input.iter().any(|i| ins.contains(&i.previous_output))
                    });
                }
            }
            self.mine(txs);
        }
    }

    // ---- node RPC ------------------------------------------------------------------------

    fn rpc(&mut self, method: &str, params: &serde_json::Value) -> Result<serde_json::Value, RpcFailure> {
        if self.rpc_cut_first && self.rpc_down_from == Some(self.rpc_count) {
            // the node executes this call; the connection is lost while the reply is on its way
            self.rpc_cut_first = false;
            let from = self.rpc_down_from.take();
            let left = self.rpc_down_failures_left.take();
            let _ = self.rpc_inner(method, params);
            if let Some(r) = self.rpc_log.last_mut() {
                r.verdict = format!("{}:reply-cut", r.verdict);
            }
            self.outage_started = true;
            self.first_outage_seen = true;
            match left {
                Some(n) if n <= 1 => {}
                Some(n) => {
                    self.rpc_down_from = from;
                    self.rpc_down_failures_left = Some(n - 1);
                }
                None => self.rpc_down_from = from,
            }
            return Err(RpcFailure::Cut);
        }
        self.rpc_inner(method, params)
    }

    fn rpc_inner(&mut self, method: &str, params: &serde_json::Value) -> Result<serde_json::Value, RpcFailure> {
        let idx = self.rpc_count;
        self.rpc_count += 1;
        let node_height = self.height();
        let txid_param = |p: &serde_json::Value| -> Option<Txid> {
            p.get(0).and_then(|v| v.as_str()).and_then(|s| s.parse::<Txid>().ok())
        };
        if self.rpc_flood_limit.map_or(false, |l| idx >= l) {
            self.rpc_flooded = true;
            panic!("verif: the node was flooded with requests (retry loop without waiting)");
        }
        if self.rpc_down_from.is_none() {
            self.outage_started = false;
            if let (true, Some((n, f))) = (self.first_outage_seen, self.second_outage) {
                if n == 0 {
                    self.second_outage = None;
                    self.rpc_down_from = Some(idx);
                    self.rpc_down_failures_left = Some(f);
                } else {
                    self.second_outage = Some((n - 1, f));
                }
            }
        }
        if self.rpc_down_from.map_or(false, |f| idx >= f) {
            self.outage_started = true;
            self.first_outage_seen = true;
            let txid = match method {
                "sendrawtransaction" => params
                    .get(0)
                    .and_then(|v| v.as_str())
                    .and_then(|s| hex::decode(s).ok())
                    .and_then(|b| bitcoin::consensus::deserialize::<Transaction>(&b).ok())
                    .map(|t| t.compute_txid()),
                _ => txid_param(params),
            };
            let warmup = self.rpc_down_is_warmup;
            self.rpc_log.push(RpcRecord {
                method: method.to_owned(),
                txid,
                verdict: if warmup { "err:-28:warming-up".into() } else { "transport".into() },
                node_height,
            });
            if let Some(n) = self.rpc_down_failures_left {
                if n <= 1 {
                    self.rpc_down_from = None;
                    self.rpc_down_failures_left = None;
                } else {
                    self.rpc_down_failures_left = Some(n - 1);
                }
            }
            return Err(if warmup { RpcFailure::Rpc(-28, "Loading block index...".into()) } else { RpcFailure::Transport });
        }
        if self.rpc_wrong_shape_for.as_deref() == Some(method) {
            self.rpc_log.push(RpcRecord { method: method.to_owned(), txid: txid_param(params), verdict: "injected:wrong-shape".into(), node_height });
            return Ok(json!({"unexpected": ["shape", 1]}));
        }
        if let Some((at, code)) = self.rpc_override {
            if at == idx {
                self.rpc_override = None;
                let txid = match method {
                    "sendrawtransaction" => params
                        .get(0)
                        .and_then(|v| v.as_str())
                        .and_then(|s| hex::decode(s).ok())
                        .and_then(|b| bitcoin::consensus::deserialize::<Transaction>(&b).ok())
                        .map(|t| t.compute_txid()),
                    _ => txid_param(params),
                };
                self.rpc_log.push(RpcRecord { method: method.to_owned(), txid, verdict: format!("injected:{code}"), node_height });
                return if code == 0 { Ok(json!({"unexpected": ["shape", 1]})) } else { Err(RpcFailure::Rpc(code, "injected by the harness".into())) };
            }
        }
        match method {
            "sendrawtransaction" => {
                let raw = params.get(0).and_then(|v| v.as_str()).unwrap_or("");
                let tx: Transaction = match hex::decode(raw)
                    .ok()
                    .and_then(|b| bitcoin::consensus::deserialize(&b).ok())
                {
                    Some(t) => t,
                    None => {
                        self.rpc_log.push(RpcRecord {
                            method: method.into(),
                            txid: None,
                            verdict: "err:-22".into(),
                            node_height,
                        });
                        return Err(RpcFailure::Rpc(-22, "TX decode failed".into()));
                    }
                };
                let txid = tx.compute_txid();
                if let Some(path) = self.send_monitor_db.clone() {
                    if let Some(v) = crate::tower::send_is_unjustified(&path, &tx) {
                        self.send_monitor_violations.push(v);
                    }
                }
                let was_in_mempool = self.mempool.contains_key(&txid);
                let r = self.submit(&tx);
                let verdict = match &r {
                    Ok(_) if was_in_mempool => "ok:mempool".to_owned(),
                    Ok(_) => "ok".to_owned(),
                    Err((c, _)) => format!("err:{c}"),
                };
                self.rpc_log.push(RpcRecord {
                    method: method.into(),
                    txid: Some(txid),
                    verdict,
                    node_height,
                });
                match r {
                    Ok(t) => Ok(json!(t.to_string())),
                    Err((c, m)) => Err(RpcFailure::Rpc(c, m.into())),
                }
            }
            "getrawtransaction" => {
                let txid = txid_param(params);
                let found = txid.and_then(|t| {
                    if let Some(tx) = self.mempool.get(&t) {
                        Some((tx.clone(), None))
                    } else if self.txindex {
                        self.confirmed.get(&t).map(|(bh, _)| {
                            let tx = self.blocks[bh]
                                .block
                                .txdata
                                .iter()
                                .find(|x| x.compute_txid() == t)
                                .unwrap()
                                .clone();
                            (tx, Some(*bh))
                        })
                    } else {
                        None
                    }
                });
                let verdict = match &found {
                    Some((_, None)) => "ok:mempool".to_owned(),
                    Some((_, Some(_))) => "ok:confirmed".to_owned(),
                    None => "err:-5".to_owned(),
                };
                self.rpc_log.push(RpcRecord {
                    method: method.into(),
                    txid,
                    verdict,
                    node_height,
                });
                match found {
                    Some((tx, bh)) => {
                        let raw = bitcoin::consensus::serialize(&tx);
                        let mut v = json!({
                            "hex": hex::encode(&raw),
                            "txid": tx.compute_txid().to_string(),
                            "hash": tx.compute_wtxid().to_string(),
                            "size": raw.len(), "vsize": raw.len(),
                            "version": 2, "locktime": 0, "vin": [], "vout": []
                        });
                        if let Some(bh) = bh {
                            let conf = self.height() - self.blocks[&bh].height + 1;
                            v["blockhash"] = json!(bh.to_string());
                            v["confirmations"] = json!(conf);
                            v["in_active_chain"] = json!(true);
                        }
                        Ok(v)
                    }
                    None => Err(RpcFailure::Rpc(
                        -5,
                        "No such mempool or blockchain transaction. Use gettransaction for wallet transactions.".into(),
                    )),
                }
            }
            "getblockcount" => {
                self.rpc_log.push(RpcRecord {
                    method: method.into(),
                    txid: None,
                    verdict: "ok".into(),
                    node_height,
                });
                Ok(json!(node_height))
            }
            other => {
                self.rpc_log.push(RpcRecord {
                    method: other.into(),
                    txid: None,
                    verdict: "err:-32601".into(),
                    node_height,
                });
                Err(RpcFailure::Rpc(-32601, "Method not found".into()))
            }
        }
    }

    /// The node's RPC as seen by an out-of-process caller (conformance runs against the real teosd).
    pub fn rpc_pub(&mut self, method: &str, params: &serde_json::Value) -> Result<serde_json::Value, (i32, String)> {
        match self.rpc(method, params) {
            Ok(v) => Ok(v),
            Err(RpcFailure::Rpc(c, m)) => Err((c, m)),
            Err(RpcFailure::Transport) | Err(RpcFailure::Cut) => Err((-28, "unreachable".into())),
        }
    }

    // ---- block source --------------------------------------------------------------------

    fn src_call(&mut self) -> Result<(), BlockSourceError> {
        let idx = self.src_count;
        self.src_count += 1;
        let with_rpc = self.src_down_with_rpc && self.outage_started && self.rpc_down_from.is_some();
        if self.src_down || with_rpc || self.src_fail.map_or(false, |(a, b)| idx >= a && idx < b) {
            return Err(BlockSourceError::transient("simulated connection failure"));
        }
        Ok(())
    }

    /// Canonical description of the environment for fingerprints.
    pub fn fingerprint(&self) -> String {
        // The tip hash commits to the whole active chain; stale branches can only be observed
        // through headers the tower still points to, which the tower-side snapshot carries.
        let mp: Vec<String> = self.mempool.keys().map(tx_label).collect();
        format!(
            "tip={} h={} mempool={mp:?} txindex={} rpcdown={:?}",
            self.tip,
            self.height(),
            self.txindex,
            self.rpc_down_from.map(|f| self.rpc_count >= f)
        )
    }
}

pub enum RpcFailure {
    Transport,
    /// the reply was cut in the middle
    Cut,
    Rpc(i32, String),
}

#[derive(Clone)]
pub struct Env(pub Arc<Mutex<SimChain>>);

impl Env {
    pub fn new(txindex: bool) -> Self {
        Env(Arc::new(Mutex::new(SimChain::new(txindex))))
    }
    pub fn lock(&self) -> std::sync::MutexGuard<'_, SimChain> {
        match self.0.lock() {
            Ok(g) => g,
            Err(p) => p.into_inner(),
        }
    }
}

pub struct SimSource(pub Env);

impl BlockSource for SimSource {
    fn get_header<'a>(
        &'a self,
        header_hash: &'a BlockHash,
        _height_hint: Option<u32>,
    ) -> AsyncBlockSourceResult<'a, BlockHeaderData> {
        Box::pin(async move {
            let mut c = self.0.lock();
            c.src_call()?;
            match c.entry(header_hash) {
                Some(e) => Ok(BlockHeaderData {
                    header: e.block.header,
                    height: e.height,
                    chainwork: e.chainwork,
                }),
                None => Err(BlockSourceError::persistent("header not found")),
            }
        })
    }

    fn get_block<'a>(&'a self, header_hash: &'a BlockHash) -> AsyncBlockSourceResult<'a, BlockData> {
        Box::pin(async move {
            let mut c = self.0.lock();
            c.src_call()?;
            match c.entry(header_hash) {
                Some(e) => Ok(BlockData::FullBlock(e.block.clone())),
                None => Err(BlockSourceError::persistent("block not found")),
            }
        })
    }

    fn get_best_block(&self) -> AsyncBlockSourceResult<(BlockHash, Option<u32>)> {
        Box::pin(async move {
            let mut c = self.0.lock();
            c.src_call()?;
            Ok((c.tip, Some(c.height())))
        })
    }
}

#[derive(Debug)]
struct SimTransportError;
impl std::fmt::Display for SimTransportError {
    fn fmt(&self, f: &mut std::fmt::Formatter<'_>) -> std::fmt::Result {
        write!(f, "simulated: connection refused")
    }
}
impl std::error::Error for SimTransportError {}

pub struct SimTransport(pub Env);

impl jsonrpc::Transport for SimTransport {
    fn send_request(&self, req: jsonrpc::Request) -> Result<jsonrpc::Response, jsonrpc::Error> {
        let params: serde_json::Value = req
            .params
            .map(|p| serde_json::from_str(p.get()).unwrap_or(serde_json::Value::Null))
            .unwrap_or(serde_json::Value::Null);
        let crash = self.0.lock().rpc_crash_points;
        if crash {
            // An RPC is an externally visible effect: a crash point sits right before it.
            teos_common::verif::crash_point("rpc");
        }
        let r = self.0.lock().rpc(req.method, &params);
        match r {
            Ok(v) => Ok(jsonrpc::Response {
                result: Some(serde_json::value::to_raw_value(&v).unwrap()),
                error: None,
                id: req.id,
                jsonrpc: Some("2.0".into()),
            }),
            Err(RpcFailure::Rpc(code, message)) => Ok(jsonrpc::Response {
                result: None,
                error: Some(jsonrpc::error::RpcError {
                    code,
                    message,
                    data: None,
                }),
                id: req.id,
                jsonrpc: Some("2.0".into()),
            }),
            Err(RpcFailure::Transport) => Err(jsonrpc::Error::Transport(Box::new(SimTransportError))),
            // what jsonrpc's HTTP transport returns for a 200 reply whose body ends early
            Err(RpcFailure::Cut) => Err(jsonrpc::Error::Json(serde_json::from_str::<serde_json::Value>("{\"result\":\"5f1b").unwrap_err())),
        }
    }

    fn send_batch(&self, _: &[jsonrpc::Request]) -> Result<Vec<jsonrpc::Response>, jsonrpc::Error> {
        Err(jsonrpc::Error::EmptyBatch)
    }

    fn fmt_target(&self, f: &mut std::fmt::Formatter) -> std::fmt::Result {
        write!(f, "sim://bitcoind")
    }
}
