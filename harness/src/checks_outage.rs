//! C12: bitcoind outages (engine S in scripted mode + fault injection in the simulated node).
//!
//! For every listed prefix history, the step that talks to the node (a block being processed or a
//! triggered add_appointment) is run with the node going away exactly at its r-th RPC, for every r.
//! On the request path the outage lasts k further polls of the chain monitor (block source down as
//! well); on the block path, where the chain monitor itself is the thread waiting in the carrier, it
//! lasts k further failed reachability checks of the carrier. Optionally a block is mined meanwhile;
//! then the node comes back and the chain monitor polls again. All of it runs under the controlled
//! scheduler, so "blocked forever" is decided exactly (no enabled thread), not by a time-out; timers
//! (the monitor's polling interval, the carrier's `wait_timeout`) elapse only when nothing else can
//! run, the polling timer first unless an early time-out is allowed (thorough tier: one per execution).

use std::collections::BTreeSet;
use std::sync::{Arc, Mutex as StdMutex};
use std::time::{Duration, Instant};

use serde_json::json;

use crate::report::{Run, Tier};
use crate::sched::{children, run_threads, setup_hooks, Sched};
use crate::sim::{tx_label, Replacement, TxName};
use crate::tower::{user_keys, Monitor, TowerCfg};
use crate::world::{Blob, Ev, MineSel, World};

#[derive(Clone, Debug, PartialEq, Eq, serde::Serialize, serde::Deserialize)]
pub enum Faulty {
    /// the chain monitor processes the pending blocks (block path)
    Poll,
    /// a request whose dispute is in the locator cache (request path)
    Add { user: u8, disp: u8, blob: Blob },
}

#[derive(Clone, Copy, Debug, PartialEq, Eq, serde::Serialize, serde::Deserialize)]
pub enum Mined {
    Nothing,
    Empty,
    /// a block confirming D2 (somebody holds an appointment for it)
    Dispute2,
}

#[derive(Clone, Debug, serde::Serialize, serde::Deserialize)]
pub struct OutageCase {
    pub name: String,
    pub cfg: TowerCfg,
    pub prefix: Vec<Ev>,
    pub faulty: Faulty,
    /// the node disappears at this RPC of the faulty step (None: fault-free reference run)
    pub rpc_index: Option<u64>,
    /// a block-source call of the faulty step fails instead (download failure, node otherwise up)
    pub src_index: Option<u64>,
    /// polls that fail while the node is away
    pub k: u8,
    pub mined: Mined,
    /// a second outage (one failed call) starting at this successful RPC after the first one is over
    #[serde(default)]
    pub again: Option<u64>,
    /// the call at which the node disappears is still executed by it, its reply is cut in the middle
    #[serde(default)]
    pub cut: bool,
    /// the node is not away but warming up after a restart: its answers are the JSON-RPC error -28 for that long
    #[serde(default)]
    pub warmup: bool,
}

#[derive(Debug)]
struct Result_ {
    blocked: Option<String>,
    panics: Vec<String>,
    /// replies of the public API while the outage was known
    during: Vec<String>,
    flagged_when_probed: Vec<bool>,
    /// per probe: a call of the tower had already failed and the node was still away
    outage_known_when_probed: Vec<bool>,
    final_state: Option<String>,
    faulty_reply: String,
    rpc_total: u64,
    rpc_log: Vec<String>,
    points: Vec<crate::sched::PointRec>,
    flooded: bool,
    timeouts: usize,
    /// after everything: (reachable flag, answer to a valid request)
    serves_again: Option<(bool, String)>,
}

fn state_of(world: &World) -> Option<String> {
    std::panic::catch_unwind(std::panic::AssertUnwindSafe(|| {
        let db = world.db_view();
        let mut s = String::new();
        let newcomer = user_keys(9).hex();
        for (k, u) in &db.users {
            if *k == newcomer {
                // the newcomer of the API probe: whether they got in depends on when they asked
                continue;
            }
            s.push_str(&format!("U{}:{:?};", &k[..8], u));
        }
        for (k, a) in &db.appointments {
            s.push_str(&format!("A{}:{}:{};", &k[..10], crate::tower::fnv(&a.blob), &a.user[..8]));
        }
        for (k, t) in &db.trackers {
            s.push_str(&format!("T{}:{}:{};", &k[..10], tx_label(&t.dispute), tx_label(&t.penalty)));
        }
        let env = world.env.lock();
        let mp: Vec<String> = env.mempool.keys().map(tx_label).collect();
        s.push_str(&format!("mempool={mp:?};tower_height={:?}", world.tower.as_ref().map(|t| t.heights())));
        s
    }))
    .ok()
}

fn execute(c: &OutageCase, choices: &[usize]) -> Result_ {
    execute_with(c, choices, 0)
}

fn execute_with(c: &OutageCase, choices: &[usize], early_timeouts: usize) -> Result_ {
    let sched = Sched::new(choices.to_vec());
    sched.allow_early_timeouts(early_timeouts);
    let guard = setup_hooks(&sched);
    let mut world = World::new(c.cfg);
    world.boot().unwrap();
    for ev in c.prefix.iter() {
        let o = world.apply(ev);
        assert!(o.panic.is_none(), "prefix panicked: {:?}", o.panic);
    }
    drop(guard);
    let api = world.api();
    let monitor = Arc::new(StdMutex::new(world.tower.as_mut().unwrap().monitor.take()));
    let env = world.env.clone();
    // arm the fault relative to the calls made so far
    {
        let mut e = env.lock();
        e.rpc_flood_limit = Some(e.rpc_count + 400);
        if let Some(r) = c.rpc_index {
            e.rpc_down_from = Some(e.rpc_count + r);
            e.src_down_with_rpc = true;
            if c.faulty == Faulty::Poll {
                // nobody but the waiting carrier talks to the node: the outage is over after its first
                // failed call plus k failed reachability checks
                e.rpc_down_failures_left = Some(1 + c.k as u64);
            }
            e.second_outage = c.again.map(|n| (n, 1));
            e.rpc_cut_first = c.cut;
            e.rpc_down_is_warmup = c.warmup;
        }
        if let Some(i) = c.src_index {
            let base = e.src_count;
            e.src_fail = Some((base + i, base + i + 1));
        }
    }
    let during: Arc<StdMutex<Vec<String>>> = Arc::new(StdMutex::new(Vec::new()));
    let flagged: Arc<StdMutex<Vec<bool>>> = Arc::new(StdMutex::new(Vec::new()));
    let reachable = world.tower.as_ref().unwrap().reachable.clone();

    let noticed: Arc<StdMutex<Vec<bool>>> = Arc::new(StdMutex::new(Vec::new()));
    let probe = {
        let env_p = env.clone();
        let noticed = noticed.clone();
        let api = api.clone();
        let during = during.clone();
        let flagged = flagged.clone();
        let reachable = reachable.clone();
        move || {
            let flag = *reachable.0.lock().unwrap();
            let known_outage = {
                let e = env_p.lock();
                e.outage_started && e.rpc_down_from.is_some()
            };
            noticed.lock().unwrap().push(known_outage);
            let r = api.get_subscription_info(user_keys(1).sign(b"get subscription info"));
            let a = api.register(&user_keys(9));
            flagged.lock().unwrap().push(flag);
            during.lock().unwrap().push(format!(
                "info:{};register:{}",
                r.map(|_| "ok".to_owned()).unwrap_or_else(|e| format!("{:?}", e.code)),
                a.map(|_| "ok".to_owned()).unwrap_or_else(|e| format!("{:?}", e.code))
            ));
        }
    };
    let poll = |m: &Arc<StdMutex<Option<Monitor>>>| {
        // the chain monitor polls every few seconds: by then everything else has run as far as it can
        // (idle = proceed only when every other thread is finished or blocked)
        crate::sched::idle();
        let mut g = m.lock().unwrap();
        g.as_mut().unwrap().poll();
    };
    let mine = |env: &crate::sim::Env, what: Mined| match what {
        Mined::Nothing => {}
        Mined::Empty => {
            env.lock().mine(vec![]);
        }
        Mined::Dispute2 => {
            env.lock().mine(vec![crate::sim::build_tx(TxName::D(2))]);
        }
    };
    let mut bodies: Vec<Box<dyn FnOnce() -> String + Send>> = Vec::new();
    match &c.faulty {
        Faulty::Poll => {
            // the chain-monitor thread: the faulty poll, then its later polls
            let monitor = monitor.clone();
            bodies.push(Box::new(move || {
                {
                    let mut g = monitor.lock().unwrap();
                    g.as_mut().unwrap().poll();
                }
                poll(&monitor);
                poll(&monitor);
                poll(&monitor);
                "polled".to_owned()
            }));
            // the rest of the world while the chain monitor is busy (or stuck): a block is mined, a user
            // and a newcomer talk to the API
            let env = env.clone();
            let c2 = c.clone();
            let probe = probe.clone();
            bodies.push(Box::new(move || {
                crate::sched::idle();
                mine(&env, c2.mined);
                if c2.rpc_index.is_some() {
                    probe();
                }
                "world-done".to_owned()
            }));
        }
        Faulty::Add { user, disp, blob } => {
            let (a, sig) = World::make_appointment(&user_keys(*user), *disp, *blob, 42);
            let api2 = api.clone();
            bodies.push(Box::new(move || match api2.add_appointment(&a, sig) {
                Ok(r) => format!("ok:slots={}", r.available_slots),
                Err(e) => format!("err:{:?}", e.code),
            }));
            // the chain monitor's part of the story after the faulty request started
            let monitor = monitor.clone();
            let env = env.clone();
            let c = c.clone();
            let probe = probe.clone();
            bodies.push(Box::new(move || {
                if c.rpc_index.is_some() {
                    mine(&env, c.mined);
                    for _ in 0..c.k {
                        poll(&monitor);
                        probe();
                    }
                    if c.k == 0 {
                        // the outage is over before the chain monitor polls again; if the carrier has
                        // noticed it, the API must refuse work in the meantime
                        crate::sched::idle();
                        probe();
                    }
                    let mut e = env.lock();
                    e.rpc_down_from = None;
                    e.src_down_with_rpc = false;
                } else {
                    mine(&env, c.mined);
                }
                poll(&monitor);
                poll(&monitor);
                // (it keeps polling for ever; one more round is enough to release anything releasable)
                poll(&monitor);
                "monitor-done".to_owned()
            }));
        }
    }
    let ex = run_threads(&sched, bodies);
    let m = match monitor.lock() {
        Ok(mut g) => g.take(),
        Err(p) => p.into_inner().take(),
    };
    world.tower.as_mut().unwrap().monitor = m;
    let mut serves_again = None;
    if ex.deadlock.is_none() && ex.panics.iter().all(|p| p.is_none()) && ex.diverged.is_none() {
        // the chain monitor keeps polling for ever: whatever was mined late is picked up eventually
        let _ = std::panic::catch_unwind(std::panic::AssertUnwindSafe(|| {
            let t = world.tower.as_mut().unwrap();
            t.poll();
            t.poll();
        }));
        // ... and with the node back and polled, the public API must take on work again
        let flag = *reachable.0.lock().unwrap();
        let r = api.get_subscription_info(user_keys(1).sign(b"get subscription info"));
        serves_again = Some((flag, r.map(|_| "ok".to_owned()).unwrap_or_else(|e| format!("{:?}", e.code))));
    }
    let flooded = env.lock().rpc_flooded;
    let panics: Vec<String> = ex.panics.iter().filter_map(|p| p.clone()).collect();
    let final_state = if ex.deadlock.is_none() && panics.is_empty() { state_of(&world) } else { None };
    let rpc_total = env.lock().rpc_count;
    let rpc_log_v: Vec<String> = env.lock().rpc_log.iter().map(|r| format!("{}:{}:{}", r.method, r.txid.map(|t| tx_label(&t)).unwrap_or_default(), r.verdict)).collect();
    let during_v = during.lock().unwrap().clone();
    let flagged_v = flagged.lock().unwrap().clone();
    let noticed_v = noticed.lock().unwrap().clone();
    Result_ {
        blocked: ex.deadlock,
        panics,
        during: during_v,
        flagged_when_probed: flagged_v,
        outage_known_when_probed: noticed_v,
        final_state,
        faulty_reply: ex.results.first().cloned().flatten().unwrap_or_default(),
        rpc_total,
        rpc_log: rpc_log_v,
        points: ex.points,
        flooded,
        timeouts: sched.timeouts_fired(),
        serves_again,
    }
}

fn prefixes() -> Vec<(String, TowerCfg, Vec<Ev>, Faulty)> {
    let cfg = TowerCfg { slots: 4, duration: 400, grace: 6, txindex: false };
    let add = |u, k, b| Ev::Add { user: u, disp: k, blob: b, tsd: 42 };
    let mine = |txs: Vec<TxName>| Ev::Mine(MineSel::Txs(txs));
    vec![
        ("breach-in-block".into(), cfg, vec![Ev::Register(1), add(1, 1, Blob::Valid), add(1, 2, Blob::Valid), mine(vec![TxName::D(1)])], Faulty::Poll),
        (
            "two-breaches-in-block".into(),
            cfg,
            vec![Ev::Register(1), Ev::Register(2), add(1, 1, Blob::Valid), add(2, 1, Blob::Alt), add(1, 2, Blob::Valid), mine(vec![TxName::D(1)])],
            Faulty::Poll,
        ),
        (
            "reorg-resubmission".into(),
            cfg,
            {
                let mut s = crate::checks_t::seed("S4");
                s.push(add(1, 2, Blob::Valid));
                s.push(Ev::Reorg { depth: 1, how: Replacement::Unconfirm });
                s
            },
            Faulty::Poll,
        ),
        (
            "stale-rebroadcast".into(),
            cfg,
            {
                let mut s = crate::checks_t::seed("S6");
                s.push(add(1, 2, Blob::Valid));
                s.push(Ev::Mine(MineSel::Empty));
                s
            },
            Faulty::Poll,
        ),
        (
            "triggered-request".into(),
            cfg,
            vec![Ev::Register(1), add(1, 2, Blob::Valid), Ev::MineP(MineSel::Txs(vec![TxName::D(1)]))],
            Faulty::Add { user: 1, disp: 1, blob: Blob::Valid },
        ),
        (
            "triggered-request-refused-penalty".into(),
            cfg,
            vec![Ev::Register(1), add(1, 2, Blob::Valid), Ev::MineP(MineSel::Txs(vec![TxName::D(1)]))],
            Faulty::Add { user: 1, disp: 1, blob: Blob::Bad },
        ),
        // nothing to do at all: the outage is only seen by the polls, and the node comes back without a new block
        ("idle-tower".into(), cfg, vec![Ev::Register(1), add(1, 2, Blob::Valid), Ev::MineP(MineSel::Empty)], Faulty::Poll),
        (
            "multi-block-catch-up".into(),
            cfg,
            vec![Ev::Register(1), add(1, 1, Blob::Valid), add(1, 2, Blob::Valid), mine(vec![TxName::D(1)]), Ev::Mine(MineSel::Empty), mine(vec![TxName::D(2)])],
            Faulty::Poll,
        ),
    ]
}

fn judge(c: &OutageCase, r: &Result_, reference: &Result_) -> Vec<(String, String)> {
    let mut v = Vec::new();
    let path = match c.faulty {
        Faulty::Poll => "block-path",
        Faulty::Add { .. } => "request-path",
    };
    let what = if c.rpc_index.is_some() { "rpc-outage" } else { "failed-download" };
    if r.flooded {
        v.push((
            format!("node-flooded-during-outage:{path}"),
            format!("{}: more than 400 RPCs were fired at the unreachable node by one operation (no waiting between retries)", c.name),
        ));
        return v;
    }
    for p in r.panics.iter() {
        let msg: String = p.chars().take(90).collect();
        v.push((format!("panic-during-{what}:{path}:{msg}"), format!("{}: {p}", c.name)));
    }
    if let Some(b) = &r.blocked {
        let waits_reachable = b.contains("wait(");
        let mined = c.mined != Mined::Nothing;
        let sig = match (&c.faulty, waits_reachable) {
            (Faulty::Poll, true) => "blocked-forever:block-path:chain-monitor-waits-for-its-own-poll".to_owned(),
            (Faulty::Add { .. }, true) if mined => "blocked-forever:request-path:waiter-holds-locator-cache-while-a-block-arrives".to_owned(),
            (_, true) => format!("blocked-forever:{path}:nobody-signals-recovery"),
            _ => format!("blocked-forever:{path}:circular-wait"),
        };
        v.push((sig, format!("{} (rpc #{:?}, k={}, mined {:?}): {b}", c.name, c.rpc_index, c.k, c.mined)));
        return v;
    }
    if !r.panics.is_empty() {
        return v;
    }
    // while the outage is known, the public API must refuse work
    for (flag, reply) in r.flagged_when_probed.iter().zip(r.during.iter()) {
        if !*flag && reply != "info:Unavailable;register:Unavailable" {
            v.push((
                format!("api-serves-during-known-outage:{path}"),
                format!("{}: bitcoind flagged unreachable but the API answered {reply}", c.name),
            ));
        }
    }
    if c.rpc_index.is_some() && r.flagged_when_probed.iter().zip(r.outage_known_when_probed.iter()).any(|(f, known)| *f && *known) {
        v.push((
            format!("outage-not-noticed:{path}"),
            format!("{}: a call to the node failed and it is still away, yet bitcoind is flagged reachable", c.name),
        ));
    }
    // the tower declares the node back (and resumes, and reopens the API) only when the node really answers: a
    // reachability check that failed (here: the node is warming up) must not be followed by anything but another check
    for w in r.rpc_log.windows(2) {
        if w[0].starts_with("getblockcount:") && w[0].contains("warming-up") && !w[1].starts_with("getblockcount:") && w[1].contains("warming-up") {
            v.push((
                format!("resumed-before-the-node-was-back:{path}"),
                format!("{}: the carrier's own check was answered 'warming up', yet the tower went on ({}) as if bitcoind were back; rpcs {:?}", c.name, w[1], r.rpc_log),
            ));
            break;
        }
    }
    if let Some((flag, answer)) = &r.serves_again {
        if !*flag || answer == "Unavailable" {
            v.push((
                format!("no-recovery:api-still-unavailable-after-the-node-is-back:{path}:{what}"),
                format!("{}: the node is back and has been polled three times; reachable flag {flag}, a valid request is answered {answer}", c.name),
            ));
        }
    }
    // after recovery and two polls everything must be as in the fault-free run
    if r.final_state != reference.final_state || r.faulty_reply != reference.faulty_reply {
        let lost = reference.final_state.as_ref().map_or(false, |f| f.matches(";T").count() + f.starts_with('T') as usize > r.final_state.as_ref().map_or(0, |g| g.matches(";T").count() + g.starts_with('T') as usize));
        v.push((
            format!("{}:{path}:{}", if lost { "response-dropped-after-recovery" } else { "state-differs-after-recovery" }, if c.cut { "reply-cut-in-the-middle" } else if c.warmup { "node-warming-up" } else { what }),
            format!(
                "{} (rpc #{:?}{}, again {:?}, src #{:?}, k={}, mined {:?}): after recovery {:?} reply {:?}; fault-free {:?} reply {:?}",
                c.name, c.rpc_index, if c.cut { " executed, reply cut" } else if c.warmup { " node warming up" } else { "" }, c.again, c.src_index, c.k, c.mined, r.final_state, r.faulty_reply, reference.final_state, reference.faulty_reply
            ),
        ));
    }
    v
}

// ---- C11: any reply of the node ----------------------------------------------------------------

#[derive(Clone, Debug, serde::Serialize, serde::Deserialize)]
pub struct ReplyCase {
    pub name: String,
    pub cfg: TowerCfg,
    pub prefix: Vec<Ev>,
    pub faulty: Faulty,
    /// the r-th RPC of the faulty step ...
    pub rpc_index: u64,
    /// ... is answered with this JSON-RPC error code (0: a result of the wrong shape)
    pub code: i32,
    /// instead: *every* call of this method, from the faulty step on, gets a complete reply of the wrong shape
    #[serde(default)]
    pub always_wrong_shape_for: Option<String>,
}

/// Runs the case; Err(signature, detail) if a handler or the chain loop aborts or the tower is not live after.
pub fn run_reply_case(c: &ReplyCase) -> Result<(), (String, String)> {
    let mut world = World::new(c.cfg);
    world.boot().map_err(|e| ("boot-failed".to_owned(), e))?;
    for ev in c.prefix.iter() {
        let o = world.apply(ev);
        if let Some(p) = o.panic {
            return Err(("prefix-panicked".into(), p));
        }
    }
    {
        let mut e = world.env.lock();
        match &c.always_wrong_shape_for {
            Some(m) => e.rpc_wrong_shape_for = Some(m.clone()),
            None => e.rpc_override = Some((e.rpc_count + c.rpc_index, c.code)),
        }
    }
    let ev = match &c.faulty {
        Faulty::Poll => Ev::Poll,
        Faulty::Add { user, disp, blob } => Ev::Add { user: *user, disp: *disp, blob: *blob, tsd: 42 },
    };
    let what = if c.faulty == Faulty::Poll { "poll" } else { "add" };
    let mut steps = vec![ev, Ev::MineP(MineSel::Empty), Ev::Register(2), Ev::Add { user: 2, disp: 3, blob: Blob::Valid, tsd: 42 }, Ev::MineP(MineSel::Mempool), Ev::Restart, Ev::MineP(MineSel::Empty)];
    for (i, ev) in steps.drain(..).enumerate() {
        let o = world.apply(&ev);
        if let Some(p) = o.panic {
            let (msg, loc) = match p.rfind(" @") {
                Some(j) => (&p[..j], &p[j + 2..]),
                None => (p.as_str(), ""),
            };
            let file = loc.split(':').next().unwrap_or("");
            let msg: String = msg.chars().take(80).collect();
            let when = if i == 0 { format!("during:{what}") } else { format!("{i}-steps-after:{what}") };
            return Err((format!("panic-after-node-reply:{file}:{msg}:{when}"), format!("{} rpc #{} answered {}{}: {p}", c.name, c.rpc_index, c.code, c.always_wrong_shape_for.as_ref().map(|m| format!(" (every {m} answered with a result of the wrong shape)")).unwrap_or_default())));
        }
        if let Some(e) = o.boot_error {
            return Err((format!("restart-fails-after-node-reply:{what}"), format!("{} rpc #{} answered {}: {e}", c.name, c.rpc_index, c.code)));
        }
        if i == 2 && !matches!(o.api, Some(crate::world::ApiOutcome::Register(Ok(_)))) {
            return Err((format!("not-live-after-node-reply:{what}"), format!("{} rpc #{} answered {}: a newcomer's registration got {:?}", c.name, c.rpc_index, c.code, o.api.map(|_| "an error"))));
        }
    }
    Ok(())
}

pub fn replay_reply(v: &serde_json::Value) -> i32 {
    let c: ReplyCase = serde_json::from_value(v["replay"]["case"].clone()).unwrap();
    match run_reply_case(&c) {
        Ok(()) => {
            println!("{c:?}: fine");
            0
        }
        Err((s, d)) => {
            println!("VIOL {s} :: {d}");
            1
        }
    }
}

/// Every RPC of every listed step answered with every listed error code (C11: "no sequence of requests,
/// blocks and node replies makes a request handler or the chain-processing loop abort").
pub fn node_replies(run: &Run, tier: Tier) -> u64 {
    let codes: Vec<i32> = if tier == Tier::Quick { vec![0, -1, -22, -25, -26, -27, -28] } else { vec![0, -1, -3, -5, -8, -20, -22, -25, -26, -27, -28, -32600, -32601, -32603, -32700, 1, i32::MIN, i32::MAX] };
    let mut cases: Vec<ReplyCase> = Vec::new();
    for (name, cfg, prefix, faulty) in prefixes() {
        let mut w = World::new(cfg);
        w.boot().unwrap();
        for ev in prefix.iter() {
            w.apply(ev);
        }
        let r0 = w.env.lock().rpc_count;
        match &faulty {
            Faulty::Poll => {
                w.apply(&Ev::Poll);
            }
            Faulty::Add { user, disp, blob } => {
                w.apply(&Ev::Add { user: *user, disp: *disp, blob: *blob, tsd: 42 });
            }
        }
        let r1 = w.env.lock().rpc_count;
        drop(w);
        for r in 0..(r1 - r0) {
            for code in codes.iter() {
                cases.push(ReplyCase { name: name.clone(), cfg, prefix: prefix.clone(), faulty: faulty.clone(), rpc_index: r, code: *code, always_wrong_shape_for: None });
            }
        }
        // a node whose replies to one method never fit the client's structs (it is newer than the RPC library): not an
        // outage to wait out - the tower must go on, whatever it makes of those replies
        for m in ["getrawtransaction", "sendrawtransaction"] {
            cases.push(ReplyCase { name: name.clone(), cfg, prefix: prefix.clone(), faulty: faulty.clone(), rpc_index: 0, code: 0, always_wrong_shape_for: Some(m.to_owned()) });
        }
    }
    let (res, _) = crate::explore::par_map(&cases, None, |_, c| run_reply_case(c));
    let mut n = 0;
    for (c, r) in cases.iter().zip(res.into_iter()) {
        n += 1;
        if let Some(Err((sig, detail))) = r {
            run.violation(&sig, detail, json!({"engine": "node-reply", "case": c}), c.prefix.len());
        }
    }
    n
}

pub fn replay(v: &serde_json::Value) -> i32 {
    let c: OutageCase = serde_json::from_value(v["replay"]["case"].clone()).unwrap();
    let choices: Vec<usize> = serde_json::from_value(v["replay"]["choices"].clone()).unwrap_or_default();
    let mut rc = c.clone();
    rc.rpc_index = None;
    rc.src_index = None;
    let reference = execute(&rc, &[]);
    let early: usize = serde_json::from_value(v["replay"]["early_timeouts"].clone()).unwrap_or(0);
    let r = execute_with(&c, &choices, early);
    println!("case {c:?}");
    for p in r.points.iter() {
        println!("  {}", p.op);
    }
    println!("rpcs: {:?}", r.rpc_log);
    println!("blocked: {:?}\npanics: {:?}\nduring: {:?} flagged {:?}\nfinal: {:?}\nreference: {:?}", r.blocked, r.panics, r.during, r.flagged_when_probed, r.final_state, reference.final_state);
    let j = judge(&c, &r, &reference);
    for (s, d) in j.iter() {
        println!("VIOL {s} :: {d}");
    }
    (!j.is_empty()) as i32
}

pub fn c12(tier: Tier) -> i32 {
    let run = Run::new("C12", "fault_enumeration", tier);
    let budget = Duration::from_secs(std::env::var("VERIF_BUDGET_S").ok().and_then(|v| v.parse().ok()).unwrap_or(if tier == Tier::Quick { 50 } else { 600 }));
    let deadline = Instant::now() + budget;
    let bound = if tier == Tier::Quick { 1 } else { 3 };
    let early = if tier == Tier::Quick { 0 } else { 2 };
    let ks: Vec<u8> = if tier == Tier::Quick { vec![0, 1] } else { vec![0, 1, 2, 3] };
    let agains: Vec<u64> = if tier == Tier::Quick { vec![0, 1] } else { vec![0, 1, 2, 3, 4, 5] };
    let mut cases: Vec<OutageCase> = Vec::new();
    for (name, cfg, prefix, faulty) in prefixes() {
        // how many RPCs / block-source calls does the faulty step make when nothing fails?
        let probe = OutageCase { name: name.clone(), cfg, prefix: prefix.clone(), faulty: faulty.clone(), rpc_index: None, src_index: None, k: 0, mined: Mined::Nothing, again: None, cut: false, warmup: false };
        let mut w = World::new(cfg);
        w.boot().unwrap();
        for ev in prefix.iter() {
            w.apply(ev);
        }
        let (r0, s0) = {
            let e = w.env.lock();
            (e.rpc_count, e.src_count)
        };
        match &faulty {
            Faulty::Poll => {
                w.apply(&Ev::Poll);
            }
            Faulty::Add { user, disp, blob } => {
                w.apply(&Ev::Add { user: *user, disp: *disp, blob: *blob, tsd: 42 });
            }
        }
        let (r1, s1) = {
            let e = w.env.lock();
            (e.rpc_count, e.src_count)
        };
        drop(w);
        for r in 0..(r1 - r0) {
            // the connection drops twice: again at the retried call itself, or at the call after it
            for again in agains.iter() {
                let mut c = probe.clone();
                c.rpc_index = Some(r);
                c.again = Some(*again);
                cases.push(c);
            }
            // the node goes away while its reply to that call is on the way (the call itself took effect)
            for k in ks.iter() {
                let mut c = probe.clone();
                c.rpc_index = Some(r);
                c.k = *k;
                c.cut = true;
                cases.push(c);
            }
            // the node has been restarted since the last call and is warming up (error -28) for that long
            // (at least two failed checks on the block path: one that is answered 'warming up' must be followed by another)
            for k in ks.iter().map(|k| k + 1) {
                let mut c = probe.clone();
                c.rpc_index = Some(r);
                c.k = k;
                c.warmup = true;
                cases.push(c);
            }
            for k in ks.iter() {
                for mined in [Mined::Nothing, Mined::Empty, Mined::Dispute2] {
                    let mut c = probe.clone();
                    c.rpc_index = Some(r);
                    c.k = *k;
                    c.mined = mined;
                    cases.push(c);
                }
            }
        }
        if faulty == Faulty::Poll {
            for i in 0..(s1 - s0) {
                let mut c = probe.clone();
                c.src_index = Some(i);
                cases.push(c);
            }
        }
    }
    let total_cases = cases.len();
    let schedules = std::sync::atomic::AtomicU64::new(0);
    let timeouts = std::sync::atomic::AtomicU64::new(0);
    let recovered_by_carrier = std::sync::atomic::AtomicU64::new(0);
    let capped_placements = std::sync::atomic::AtomicU64::new(0);
    let outcomes: StdMutex<BTreeSet<String>> = StdMutex::new(BTreeSet::new());
    let (res, timed_out) = crate::explore::par_map(&cases, Some(deadline), |_, c| {
        let mut rc = c.clone();
        rc.rpc_index = None;
        rc.src_index = None;
        let reference = execute(&rc, &[]);
        // every schedule of the (at most two) threads within the pre-emption bound
        let mut stack: Vec<Vec<usize>> = vec![vec![]];
        let mut viols: Vec<(String, String, Vec<usize>)> = Vec::new();
        let mut n = 0u64;
        while let Some(prefix) = stack.pop() {
            let r = execute_with(c, &prefix, early);
            n += 1;
            timeouts.fetch_add(r.timeouts as u64, std::sync::atomic::Ordering::Relaxed);
            if r.rpc_log.iter().any(|l| l.starts_with("getblockcount::ok")) {
                recovered_by_carrier.fetch_add(1, std::sync::atomic::Ordering::Relaxed);
            }
            outcomes.lock().unwrap().insert(format!("{:?}|{:?}|{:?}|{}", r.blocked.is_some(), r.final_state, r.during, r.faulty_reply));
            for (s, d) in judge(c, &r, &reference) {
                viols.push((s, d, r.points.iter().map(|p| p.chosen).collect()));
            }
            let cap = if bound <= 1 { 400 } else { 4000 };
            if r.blocked.is_none() && r.panics.is_empty() {
                if n < cap {
                    stack.extend(children(prefix.len(), &r.points, bound));
                } else {
                    capped_placements.fetch_add(1, std::sync::atomic::Ordering::Relaxed);
                    stack.clear();
                }
            }
        }
        schedules.fetch_add(n, std::sync::atomic::Ordering::Relaxed);
        viols
    });
    let mut done = 0u64;
    for (c, r) in cases.iter().zip(res.into_iter()) {
        if let Some(v) = r {
            done += 1;
            for (sig, detail, choices) in v {
                run.violation(&sig, detail, json!({"engine": "outage", "case": c, "choices": choices, "early_timeouts": early}), c.prefix.len() * 10 + c.k as usize);
            }
            if done % 37 == 1 {
                run.sample(json!({"case": c.name, "faulty": format!("{:?}", c.faulty), "outage_at_rpc": c.rpc_index, "second_outage_at_successful_rpc": c.again, "failed_source_call": c.src_index, "reply_cut_in_the_middle": c.cut, "node_warming_up_instead_of_away": c.warmup, "polls_during_outage": c.k, "mined_meanwhile": format!("{:?}", c.mined)}));
            }
        }
    }
    // the same story once more with the real teosd process (real BitcoindClient as RPC client and block source,
    // which the in-process engines replace by the simulated node's own transport)
    if !crate::conform::teosd_binary().exists() {
        eprintln!("MACHINERY-ERROR: {} is missing (./check builds it)", crate::conform::teosd_binary().display());
        return 2;
    }
    let mut process_level = crate::conform::outage_recovery();
    if process_level.is_err() {
        // real time: once more, alone and with more patience, before believing it
        process_level = crate::conform::outage_recovery_patiently();
    }
    match process_level {
        Ok(()) => run.set("process_level_outage_and_recovery_of_teosd", json!("passed")),
        Err((sig, detail)) if sig.starts_with("machinery:") => {
            eprintln!("MACHINERY-ERROR: {sig} {detail}");
            return 2;
        }
        Err((sig, detail)) => {
            run.set("process_level_outage_and_recovery_of_teosd", json!("failed"));
            run.violation(&sig, detail, json!({"engine": "conform-outage"}), 1);
        }
    }
    run.set("evaluations", json!(schedules.load(std::sync::atomic::Ordering::Relaxed)));
    run.set("distinct_nontrivial", json!(outcomes.lock().unwrap().len().max(done as usize)));
    run.set("distinct_observed_outcomes", json!(outcomes.lock().unwrap().len()));
    run.set("carrier_timeouts_elapsed", json!(timeouts.load(std::sync::atomic::Ordering::Relaxed)));
    run.set("executions_recovered_by_the_carriers_own_check", json!(recovered_by_carrier.load(std::sync::atomic::Ordering::Relaxed)));
    run.set("early_timeouts_allowed_per_execution", json!(early));
    run.set("fault_placements", json!(total_cases));
    run.set("fault_placements_explored", json!(done));
    let capped = capped_placements.load(std::sync::atomic::Ordering::Relaxed);
    run.set("placements_whose_schedule_enumeration_was_cut_at_the_per_placement_cap", json!(capped));
    run.set("exhaustive", json!(!timed_out && capped == 0));
    run.set("preemption_bound", json!(bound));
    run.set("rule", json!("prefix histories x the step that talks to the node (block being processed: breach, two breaches, reorg re-submission, stale rebroadcast, multi-block catch-up; triggered add_appointment, accepted and refused penalty) x outage starting at every RPC of that step x k failed polls (request path) / failed reachability checks of the waiting carrier (block path) during the outage x {nothing, empty block, block with another dispute} mined meanwhile; plus, for every RPC, a connection that drops twice (again at the s-th successful call after the recovery, s = 0 being the retried call itself); plus every single failed block-source call of the polls. Each placement runs under the controlled scheduler (all schedules of request / chain-monitor / rest-of-the-world threads within the pre-emption bound; timers elapse at quiescence); 'blocked forever' = no enabled thread. evaluations = executions, distinct_nontrivial = distinct (blocked?, final state, API replies during outage) outcomes (at least the number of placements explored)"));
    run.assume("timers elapse only at quiescence; the chain monitor's polling timer elapses before the carrier's reachability-check timer except for the allowed early time-outs; on the block path the outage ends after a number of failed calls, on the request path when the scripted environment says so");
    run.finish()
}
