//! Engine S: controlled scheduler (placeholder; filled in below).
pub struct Teardown;
