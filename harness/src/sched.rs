//! Engine S: a controlled scheduler over the tower's instrumented synchronisation primitives.
//!
//! Controlled threads are real OS threads, but only one of them runs at a time: before every lock
//! acquisition, condition wait, notification and atomic load/store (hook H2) a thread publishes the
//! operation it is about to perform and parks until the scheduler picks it. The scheduler follows a
//! recorded choice sequence and then a default policy (keep running the current thread), which makes
//! every execution reproducible from its choice list. Exploration is depth-first over choice
//! sequences by re-execution, bounded by the number of pre-emptions.

use std::collections::{BTreeMap, HashMap};
use std::panic::{catch_unwind, AssertUnwindSafe, Location};
use std::sync::{Arc, Condvar as StdCondvar, Mutex as StdMutex};

use teos::verif_sync::{set_thread_hooks, Hooks};

/// Payload used to unwind threads that are still parked when an execution is torn down.
pub struct Teardown;

#[derive(Clone, Debug, PartialEq, Eq)]
pub enum Op {
    Start,
    Lock(usize),
    Wait { cv: usize, mutex: usize },
    /// `Condvar::wait_timeout`: woken by a notification, or by its time-out, which elapses only when
    /// nothing else can run (after the idling threads, unless an early time-out is allowed).
    WaitTimeout { cv: usize, mutex: usize },
    /// After having been notified (or timed out): take the mutex again.
    Reacquire(usize),
    Notify { cv: usize, all: bool },
    Atomic { id: usize, store: bool },
    /// Harness-level: proceed only once every other thread is finished or blocked ("time passes").
    Idle,
}

#[derive(Default)]
struct ThreadSt {
    pending: Option<Op>,
    parked: bool,
    finished: bool,
    held: Vec<usize>,
    panicked: Option<String>,
}

#[derive(Clone, Debug)]
pub struct PointRec {
    /// Enabled threads in canonical order (previously running thread first if still enabled).
    pub enabled: Vec<usize>,
    pub chosen: usize,
    pub running_still_enabled: bool,
    pub op: String,
}

#[derive(Default)]
struct State {
    threads: Vec<ThreadSt>,
    running: Option<usize>,
    last_running: Option<usize>,
    holder: HashMap<usize, usize>,
    names: BTreeMap<usize, String>,
    per_file: HashMap<String, usize>,
    teardown: bool,
    points: Vec<PointRec>,
    choices: Vec<usize>,
    deadlock: Option<String>,
    diverged: Option<String>,
    lock_order: Vec<(usize, usize)>,
    started: bool,
    /// time-outs allowed to elapse although an idling thread (another timer) could run first
    early_timeouts: usize,
    early_timeouts_used: usize,
    timeouts_fired: usize,
}

pub struct Sched {
    st: StdMutex<State>,
    cv: StdCondvar,
}

thread_local! {
    static TID: std::cell::Cell<Option<usize>> = const { std::cell::Cell::new(None) };
    static CUR: std::cell::RefCell<Option<Arc<Sched>>> = const { std::cell::RefCell::new(None) };
}

/// Called from a controlled thread's body: wait until every other thread is finished or blocked.
pub fn idle() {
    let s = CUR.with(|c| c.borrow().clone());
    if let (Some(s), Some(t)) = (s, TID.with(|t| t.get())) {
        s.point(t, Op::Idle);
    }
}

impl Sched {
    pub fn new(choices: Vec<usize>) -> Arc<Sched> {
        Arc::new(Sched {
            st: StdMutex::new(State { choices, ..Default::default() }),
            cv: StdCondvar::new(),
        })
    }

    /// Allows up to `n` time-outs per execution to elapse before a pending idle step (timer order deviation).
    pub fn allow_early_timeouts(&self, n: usize) {
        self.lock().early_timeouts = n;
    }

    pub fn timeouts_fired(&self) -> usize {
        self.lock().timeouts_fired
    }

    fn lock(&self) -> std::sync::MutexGuard<'_, State> {
        match self.st.lock() {
            Ok(g) => g,
            Err(p) => p.into_inner(),
        }
    }

    pub fn name_of(&self, id: usize) -> String {
        self.lock().names.get(&id).cloned().unwrap_or_else(|| format!("#{id}"))
    }

    fn op_name(st: &State, op: &Op) -> String {
        let n = |id: &usize| st.names.get(id).cloned().unwrap_or_else(|| format!("#{id}"));
        match op {
            Op::Start => "start".into(),
            Op::Lock(m) => format!("lock({})", n(m)),
            Op::Wait { cv, mutex } => format!("wait({},{})", n(cv), n(mutex)),
            Op::WaitTimeout { cv, mutex } => format!("wait_timeout({},{})", n(cv), n(mutex)),
            Op::Reacquire(m) => format!("reacquire({})", n(m)),
            Op::Notify { cv, all } => format!("notify{}({})", if *all { "_all" } else { "_one" }, n(cv)),
            Op::Atomic { id, store } => format!("{}({})", if *store { "store" } else { "load" }, n(id)),
            Op::Idle => "idle".into(),
        }
    }

    /// Called by a controlled thread: publish `op`, park until scheduled, then apply its effect.
    /// Returns the operation that was finally performed (a wait turns into a re-acquisition when notified).
    fn point(&self, tid: usize, op: Op) -> Op {
        let mut st = self.lock();
        if st.teardown {
            drop(st);
            std::panic::panic_any(Teardown);
        }
        st.threads[tid].pending = Some(op);
        st.threads[tid].parked = true;
        if st.running == Some(tid) {
            st.running = None;
        }
        self.cv.notify_all();
        loop {
            if st.teardown {
                st.threads[tid].parked = false;
                drop(st);
                std::panic::panic_any(Teardown);
            }
            if st.running == Some(tid) && !matches!(st.threads[tid].pending, Some(Op::Wait { .. })) {
                break;
            }
            st = match self.cv.wait(st) {
                Ok(g) => g,
                Err(p) => p.into_inner(),
            };
        }
        // scheduled: apply the effect on the model
        let op = st.threads[tid].pending.take().unwrap();
        st.threads[tid].parked = false;
        match op.clone() {
            Op::Lock(m) | Op::Reacquire(m) => {
                let held: Vec<usize> = st.threads[tid].held.clone();
                for h in held {
                    st.lock_order.push((h, m));
                }
                st.holder.insert(m, tid);
                st.threads[tid].held.push(m);
            }
            Op::Notify { cv, all } => {
                let mut woke = false;
                for t in 0..st.threads.len() {
                    if let Some(Op::Wait { cv: c, mutex }) | Some(Op::WaitTimeout { cv: c, mutex }) = st.threads[t].pending.clone() {
                        if c == cv && (all || !woke) {
                            st.threads[t].pending = Some(Op::Reacquire(mutex));
                            woke = true;
                        }
                    }
                }
            }
            Op::WaitTimeout { .. } => {
                st.timeouts_fired += 1;
            }
            _ => {}
        }
        op
    }

    fn unlocked(&self, tid: usize, m: usize) {
        let mut st = self.lock();
        if st.holder.get(&m) == Some(&tid) {
            st.holder.remove(&m);
        }
        if let Some(pos) = st.threads[tid].held.iter().rposition(|x| *x == m) {
            st.threads[tid].held.remove(pos);
        }
    }

    fn finished(&self, tid: usize, panicked: Option<String>) {
        let mut st = self.lock();
        st.threads[tid].finished = true;
        st.threads[tid].parked = false;
        st.threads[tid].panicked = panicked;
        // a thread that dies holding locks leaves them poisoned but released
        let held: Vec<usize> = st.threads[tid].held.drain(..).collect();
        for m in held {
            if st.holder.get(&m) == Some(&tid) {
                st.holder.remove(&m);
            }
        }
        if st.running == Some(tid) {
            st.running = None;
        }
        self.cv.notify_all();
    }

    fn enabled(st: &State) -> Vec<usize> {
        let mut v = Vec::new();
        let mut idle = Vec::new();
        let mut timeouts = Vec::new();
        for (t, th) in st.threads.iter().enumerate() {
            if th.finished || !th.parked {
                continue;
            }
            let ok = match th.pending.as_ref() {
                Some(Op::Lock(m)) | Some(Op::Reacquire(m)) => !st.holder.contains_key(m),
                Some(Op::Wait { .. }) => false,
                Some(Op::Idle) => {
                    idle.push(t);
                    false
                }
                Some(Op::WaitTimeout { .. }) => {
                    timeouts.push(t);
                    false
                }
                Some(_) => true,
                None => false,
            };
            if ok {
                v.push(t);
            }
        }
        // idling threads go on only when nothing else can
        if v.is_empty() {
            if idle.is_empty() {
                v = timeouts;
            } else {
                v = idle;
                if st.early_timeouts_used < st.early_timeouts {
                    v.extend(timeouts);
                }
            }
        }
        v
    }

    /// The scheduler loop; returns when every thread has finished (or after a deadlock was torn down).
    fn drive(&self) {
        let mut st = self.lock();
        loop {
            // wait until nobody is running and every unfinished thread is parked
            loop {
                let settled = st.running.is_none() && st.threads.iter().all(|t| t.finished || t.parked);
                if settled {
                    break;
                }
                st = match self.cv.wait(st) {
                    Ok(g) => g,
                    Err(p) => p.into_inner(),
                };
            }
            if st.threads.iter().all(|t| t.finished) {
                return;
            }
            let mut en = Self::enabled(&st);
            if en.is_empty() {
                if st.teardown {
                    // threads are unwinding; keep waiting for them to finish
                    st = match self.cv.wait_timeout(st, std::time::Duration::from_millis(50)) {
                        Ok((g, _)) => g,
                        Err(p) => p.into_inner().0,
                    };
                    continue;
                }
                // circular wait (or waiting for a notification nobody will send)
                let mut desc = Vec::new();
                for (t, th) in st.threads.iter().enumerate() {
                    if !th.finished {
                        let held: Vec<String> = th.held.iter().map(|m| st.names.get(m).cloned().unwrap_or_default()).collect();
                        desc.push(format!("T{t} holds {held:?} wants {}", th.pending.as_ref().map(|o| Self::op_name(&st, o)).unwrap_or_default()));
                    }
                }
                st.deadlock = Some(desc.join("; "));
                st.teardown = true;
                self.cv.notify_all();
                continue;
            }
            // canonical order: the thread that ran last first (if still enabled), then ascending
            let last = st.last_running;
            let running_still_enabled = last.map_or(false, |l| en.contains(&l));
            if let Some(l) = last {
                if running_still_enabled {
                    en.retain(|t| *t != l);
                    en.insert(0, l);
                }
            }
            let idx = st.points.len();
            let choice = if idx < st.choices.len() { st.choices[idx] } else { 0 };
            if choice >= en.len() {
                st.diverged = Some(format!("choice {choice} at point {idx} but only {} threads enabled", en.len()));
                st.teardown = true;
                self.cv.notify_all();
                continue;
            }
            let t = en[choice];
            if matches!(st.threads[t].pending, Some(Op::WaitTimeout { .. })) && st.threads.iter().any(|th| !th.finished && th.parked && matches!(th.pending, Some(Op::Idle))) {
                st.early_timeouts_used += 1;
            }
            let op = st.threads[t].pending.as_ref().map(|o| Self::op_name(&st, o)).unwrap_or_default();
            st.points.push(PointRec { enabled: en.clone(), chosen: choice, running_still_enabled, op: format!("T{t}:{op}") });
            st.running = Some(t);
            st.last_running = Some(t);
            self.cv.notify_all();
        }
    }
}

struct HookTable(Arc<Sched>);

impl Hooks for HookTable {
    fn created(&self, id: usize, kind: &'static str, at: &'static Location<'static>) {
        let mut st = self.0.lock();
        let file = at.file().rsplit('/').next().unwrap_or(at.file()).trim_end_matches(".rs").to_owned();
        let key = format!("{file}:{kind}");
        let n = st.per_file.entry(key).or_insert(0);
        let name = format!("{file}.{kind}{}", *n);
        *n += 1;
        st.names.insert(id, name);
    }
    fn before_lock(&self, id: usize) {
        if let Some(t) = TID.with(|t| t.get()) {
            self.0.point(t, Op::Lock(id));
        }
    }
    fn after_unlock(&self, id: usize) {
        if let Some(t) = TID.with(|t| t.get()) {
            self.0.unlocked(t, id);
        }
    }
    fn wait(&self, condvar: usize, mutex: usize) {
        if let Some(t) = TID.with(|t| t.get()) {
            self.0.unlocked(t, mutex);
            self.0.point(t, Op::Wait { cv: condvar, mutex });
        }
    }
    fn wait_timeout(&self, condvar: usize, mutex: usize) -> bool {
        if let Some(t) = TID.with(|t| t.get()) {
            self.0.unlocked(t, mutex);
            if let Op::WaitTimeout { .. } = self.0.point(t, Op::WaitTimeout { cv: condvar, mutex }) {
                // the time-out elapsed: take the mutex again like anybody else
                self.0.point(t, Op::Reacquire(mutex));
                return true;
            }
        }
        false
    }
    fn notify(&self, condvar: usize, all: bool) {
        if let Some(t) = TID.with(|t| t.get()) {
            self.0.point(t, Op::Notify { cv: condvar, all });
        }
    }
    fn atomic(&self, id: usize, store: bool) {
        if let Some(t) = TID.with(|t| t.get()) {
            self.0.point(t, Op::Atomic { id, store });
        }
    }
}

/// Result of one controlled execution.
pub struct Execution<R> {
    pub results: Vec<Option<R>>,
    pub panics: Vec<Option<String>>,
    pub points: Vec<PointRec>,
    pub deadlock: Option<String>,
    pub diverged: Option<String>,
    pub lock_order: Vec<(String, String)>,
}

/// Installs the hook table of `sched` on the calling (uncontrolled) thread so that primitives created
/// while setting up are named. Returns a guard that removes it again.
pub struct SetupGuard;
impl Drop for SetupGuard {
    fn drop(&mut self) {
        set_thread_hooks(None);
        SETUP_ACTIVE.with(|s| s.set(false));
        crate::world::self_lock_detector_removed();
    }
}

thread_local! {
    static SETUP_ACTIVE: std::cell::Cell<bool> = const { std::cell::Cell::new(false) };
}

/// Whether the calling thread is one of the scheduler's controlled threads, or is setting a world up for them
/// (the scheduler's own hook table is installed then and must stay).
pub fn is_controlled_thread() -> bool {
    TID.with(|t| t.get()).is_some() || SETUP_ACTIVE.with(|s| s.get())
}

pub fn setup_hooks(sched: &Arc<Sched>) -> SetupGuard {
    crate::world::self_lock_detector_removed();
    SETUP_ACTIVE.with(|s| s.set(true));
    set_thread_hooks(Some(Arc::new(HookTable(sched.clone()))));
    SetupGuard
}

/// Runs the given bodies as controlled threads under `sched`.
pub fn run_threads<R: Send + 'static>(sched: &Arc<Sched>, bodies: Vec<Box<dyn FnOnce() -> R + Send>>) -> Execution<R> {
    let n = bodies.len();
    {
        let mut st = sched.lock();
        st.threads = (0..n).map(|_| ThreadSt::default()).collect();
        st.started = true;
    }
    let results: Arc<StdMutex<Vec<Option<R>>>> = Arc::new(StdMutex::new((0..n).map(|_| None).collect()));
    let mut handles = Vec::new();
    for (tid, body) in bodies.into_iter().enumerate() {
        let sched2 = sched.clone();
        let results2 = results.clone();
        handles.push(
            std::thread::Builder::new()
                .name(format!("verif-T{tid}"))
                .stack_size(32 * 1024 * 1024)
                .spawn(move || {
                    TID.with(|t| t.set(Some(tid)));
                    CUR.with(|c| *c.borrow_mut() = Some(sched2.clone()));
                    set_thread_hooks(Some(Arc::new(HookTable(sched2.clone()))));
                    let r = catch_unwind(AssertUnwindSafe(|| {
                        sched2.point(tid, Op::Start);
                        body()
                    }));
                    set_thread_hooks(None);
                    CUR.with(|c| *c.borrow_mut() = None);
                    match r {
                        Ok(v) => {
                            results2.lock().unwrap()[tid] = Some(v);
                            sched2.finished(tid, None);
                        }
                        Err(p) => {
                            let msg = if p.downcast_ref::<Teardown>().is_some() {
                                None
                            } else {
                                Some(format!("{} @{}", crate::world::panic_message(&p), crate::world::take_panic_location()))
                            };
                            sched2.finished(tid, msg);
                        }
                    }
                })
                .unwrap(),
        );
    }
    sched.drive();
    for h in handles {
        let _ = h.join();
    }
    let st = sched.lock();
    let mut lo: Vec<(String, String)> = st
        .lock_order
        .iter()
        .map(|(a, b)| (st.names.get(a).cloned().unwrap_or_default(), st.names.get(b).cloned().unwrap_or_default()))
        .collect();
    lo.sort();
    lo.dedup();
    let results = std::mem::take(&mut *results.lock().unwrap());
    Execution {
        results,
        panics: st.threads.iter().map(|t| t.panicked.clone()).collect(),
        points: st.points.clone(),
        deadlock: st.deadlock.clone(),
        diverged: st.diverged.clone(),
        lock_order: lo,
    }
}

/// Number of pre-emptions in the first `upto` points of a recorded execution.
pub fn preemptions(points: &[PointRec], upto: usize) -> usize {
    points[..upto].iter().filter(|p| p.running_still_enabled && p.chosen != 0).count()
}

/// Children of an executed choice sequence under a pre-emption bound (see module docs).
pub fn children(prefix_len: usize, points: &[PointRec], bound: usize) -> Vec<Vec<usize>> {
    children_with_cost(prefix_len, points, bound).into_iter().map(|(_, c)| c).collect()
}

/// The alternatives of an execution, each with the number of pre-emptions its prefix contains.
pub fn children_with_cost(prefix_len: usize, points: &[PointRec], bound: usize) -> Vec<(usize, Vec<usize>)> {
    let mut out = Vec::new();
    for i in prefix_len..points.len() {
        let p = &points[i];
        let base = preemptions(points, i);
        for alt in 1..p.enabled.len() {
            let cost = base + if p.running_still_enabled { 1 } else { 0 };
            if cost > bound {
                continue;
            }
            let mut c: Vec<usize> = points[..i].iter().map(|q| q.chosen).collect();
            c.push(alt);
            out.push((cost, c));
        }
    }
    out
}

// =============================================================================================
// self-tests of the scheduler on three textbook programs with known answers
// =============================================================================================

fn explore_all<R: Send + Clone + 'static, F: Fn() -> Vec<Box<dyn FnOnce() -> R + Send>>>(make: F, bound: usize) -> (u64, Vec<(Vec<Option<R>>, bool)>) {
    let mut stack: Vec<Vec<usize>> = vec![vec![]];
    let mut n = 0u64;
    let mut outs = Vec::new();
    while let Some(prefix) = stack.pop() {
        let sched = Sched::new(prefix.clone());
        let g = setup_hooks(&sched);
        let bodies = make();
        drop(g);
        let ex = run_threads(&sched, bodies);
        assert!(ex.diverged.is_none(), "self-test replay diverged: {:?}", ex.diverged);
        n += 1;
        outs.push((ex.results.clone(), ex.deadlock.is_some()));
        stack.extend(children(prefix.len(), &ex.points, bound));
    }
    (n, outs)
}

pub fn selftest() -> i32 {
    use std::sync::atomic::Ordering;
    use teos::verif_sync::{AtomicU32, Condvar, Mutex};
    let mut ok = true;
    let mut check = |name: &str, cond: bool, detail: String| {
        println!("selftest {name}: {} ({detail})", if cond { "ok" } else { "FAILED" });
        ok &= cond;
    };
    // 1. lost update: two threads, each load then store(v+1). 3 scheduling points per thread
    //    (start, load, store) => C(6,3) = 20 complete schedules; final values {1, 2}.
    let (n, outs) = explore_all(
        || {
            let a = Arc::new(AtomicU32::new(0));
            (0..2)
                .map(|_| {
                    let a = a.clone();
                    Box::new(move || {
                        let v = a.load(Ordering::SeqCst);
                        a.store(v + 1, Ordering::SeqCst);
                        a.load(Ordering::SeqCst)
                    }) as Box<dyn FnOnce() -> u32 + Send>
                })
                .collect()
        },
        usize::MAX,
    );
    let finals: std::collections::BTreeSet<u32> = outs.iter().map(|(r, _)| r.iter().map(|x| x.unwrap_or(0)).max().unwrap()).collect();
    // each thread has 4 points here (start, load, store, load) => C(8,4) = 70
    check("lost-update", n == 70 && finals.contains(&1) && finals.contains(&2), format!("{n} schedules (closed form C(8,4) = 70), final values {finals:?}"));
    // with at most 0 pre-emptions only the two serial orders (T0 first / T1 first at the first point)
    let (n0, outs0) = explore_all(
        || {
            let a = Arc::new(AtomicU32::new(0));
            (0..2)
                .map(|_| {
                    let a = a.clone();
                    Box::new(move || {
                        let v = a.load(Ordering::SeqCst);
                        a.store(v + 1, Ordering::SeqCst);
                        0u32
                    }) as Box<dyn FnOnce() -> u32 + Send>
                })
                .collect()
        },
        0,
    );
    let _ = outs0;
    check("preemption-bound-0", n0 == 2, format!("{n0} schedules with bound 0 (the two serial orders)"));
    // 2. ABBA: a circular wait must be found, and runs without it too
    let (n, outs) = explore_all(
        || {
            let a = Arc::new(Mutex::new(0u32));
            let b = Arc::new(Mutex::new(0u32));
            let (a1, b1, a2, b2) = (a.clone(), b.clone(), a.clone(), b.clone());
            vec![
                Box::new(move || {
                    let _x = a1.lock().unwrap();
                    let _y = b1.lock().unwrap();
                    1u32
                }) as Box<dyn FnOnce() -> u32 + Send>,
                Box::new(move || {
                    let _y = b2.lock().unwrap();
                    let _x = a2.lock().unwrap();
                    2u32
                }),
            ]
        },
        2,
    );
    let dead = outs.iter().filter(|(_, d)| *d).count();
    check("abba-deadlock", dead > 0 && dead < outs.len(), format!("{dead} of {n} schedules end in a circular wait"));
    // 3. lost wake-up: waiter checks a flag under the mutex and waits; the setter forgets to notify
    for notify in [false, true] {
        let (n, outs) = explore_all(
            move || {
                let pair = Arc::new((Mutex::new(false), Condvar::new()));
                let (p1, p2) = (pair.clone(), pair.clone());
                vec![
                    Box::new(move || {
                        let mut g = p1.0.lock().unwrap();
                        while !*g {
                            g = p1.1.wait(g).unwrap();
                        }
                        1u32
                    }) as Box<dyn FnOnce() -> u32 + Send>,
                    Box::new(move || {
                        *p2.0.lock().unwrap() = true;
                        if notify {
                            p2.1.notify_all();
                        }
                        2u32
                    }),
                ]
            },
            3,
        );
        let stuck = outs.iter().filter(|(_, d)| *d).count();
        if notify {
            check("wake-up-delivered", stuck == 0, format!("{stuck} of {n} schedules blocked with notify_all"));
        } else {
            check("lost-wake-up", stuck > 0 && stuck < outs.len(), format!("{stuck} of {n} schedules blocked for ever without the notification"));
        }
    }
    if ok {
        0
    } else {
        2
    }
}
